#!/bin/sh
# runall.sh <tier> [seed...] : every check, one line each
tier=${1:-quick}; shift
seeds=${*:-0}
cd "$(dirname "$0")/.."
for s in $seeds; do
  for i in 01 02 03 04 05 06 07 08 09 10 11 12 13 14 15 16 17 18 19 20; do
    out=$(VERIF_SEED=$s ./vcheck C$i $tier 2>&1); rc=$?
    echo "seed=$s rc=$rc $(echo "$out" | head -1 | cut -c1-110)"
    echo "$out" | grep -E "^(VIOLATION|INCONCLUSIVE)" | head -3 | cut -c1-300
  done
done
