#!/usr/bin/env python3
"""triage.py <Cxx> [tier]: runs the check keeping every violation, then groups them by
(kind, fn, exception/why) and prints the shortest example of each group."""
import glob, json, os, subprocess, sys, shutil
V = os.path.dirname(os.path.dirname(os.path.abspath(__file__)))
prop = sys.argv[1]; tier = sys.argv[2] if len(sys.argv) > 2 else 'quick'
env = dict(os.environ, VERIF_MAX_VIOL='200000', VERIF_KEEP_RUN='1', VERIF_OUT='/root/.vscratch/triage')
subprocess.run([os.path.join(V, 'vcheck'), prop, tier], env=env, stdout=subprocess.DEVNULL)
groups = {}
for d in glob.glob(os.path.join(V, '.run', prop + '-*')):
    for f in glob.glob(os.path.join(d, 'out*.json')):
        for r in json.load(open(f)).get('violations', []):
            det = r['detail']
            why = ''
            if isinstance(det, dict):
                why = str(det.get('exc') or det.get('why') or sorted(det.keys()))
            k = (r['kind'], r['case'].get('fn') or r['case'].get('config_name') or '', why)
            size = len(json.dumps(r['case']))
            g = groups.setdefault(k, [0, None, 10**9])
            g[0] += 1
            if size < g[2]:
                g[1], g[2] = r, size
    shutil.rmtree(d, ignore_errors=True)
for k, (n, r, _) in sorted(groups.items(), key=lambda kv: -kv[1][0]):
    print(n, k)
    print('     case  :', json.dumps(r['case'], ensure_ascii=False)[:300])
    print('     detail:', json.dumps(r['detail'], ensure_ascii=False)[:400])
