#!/usr/bin/env python3
"regenerates seeded/README.md from the meta.json files"
import glob
import json
import os

V = os.path.dirname(os.path.dirname(os.path.abspath(__file__)))
HEAD = '''# Seeded changes (written by independent sub-agents)

Each directory holds `patch.diff` (applies to /repo with `git -C /repo apply`), the agent's
demonstration (`demo.py`: exit 0 / PASS without the change, exit 1 / FAIL with it), its
`NOTES.md` and `meta.json` (property, what the change needs in order to manifest, what was run
and the result).  `./vcheck selftest seeded/` re-applies every patch to a scratch copy and
expects the property's quick check to exit 1.  Round 1: "break the property"; rounds 2 and 3:
"break it so that it needs something specific / far from small inputs to manifest".

| id | round | property | needs | caught by | notes |
|---|---|---|---|---|---|
'''
rows = []
for p in sorted(glob.glob(os.path.join(V, 'seeded', '*', 'meta.json'))):
    m = json.load(open(p))
    name = os.path.basename(os.path.dirname(p))
    rnd = m.get('round') or (3 if '-r3-' in name else 2 if '-r2-' in name else 1)
    caught = ', '.join('%s %s' % (c, v['verdict']) for c, v in m['checks'].items())
    note = m.get('note') or 'caught at the first run'
    rows.append('| %s | %s | %s | %s | %s | %s |' % (name, rnd, m['property'], m['needs_to_manifest'].replace('|', '\\|'), caught, note.replace('|', '\\|')))
with open(os.path.join(V, 'seeded', 'README.md'), 'w') as f:
    f.write(HEAD + '\n'.join(rows) + '\n')
print(len(rows), 'rows')
