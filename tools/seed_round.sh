#!/bin/sh
# seed_round.sh <root>   e.g. tools/seed_round.sh /tmp/seed9
# Prepares one round of independently seeded changes: one detached worktree of /repo per property (outside /repo and /verif),
# the property text (nothing else from /verif) and the prompt for the sub-agent.  Import the results with tools/seed_import.py,
# then remove every worktree:  for d in <root>/C*; do git -C /repo worktree remove --force $d; done
root=${1:?root directory}
here="$(cd "$(dirname "$0")/.." && pwd)"
mkdir -p "$root"
python3 - "$root" "$here" <<'PY'
import json, sys
root, here = sys.argv[1], sys.argv[2]
tmpl = open(here + '/tools/seed_prompt_template.txt').read().replace('SEEDROOT', root)
for l in open(here + '/properties.jsonl'):
    p = json.loads(l)
    t = "PROPERTY %s: %s\n\n%s\n\nQuantified over: %s\n\nCode the property is anchored in: %s\n" % (
        p['id'], p['title'], p['statement'], p['quantifier']['text'], ', '.join(p['anchors']['files']))
    open('%s/%s.txt' % (root, p['id']), 'w').write(t)
    open('%s/PROMPT_%s.txt' % (root, p['id']), 'w').write(tmpl.replace('CXX', p['id']))
PY
for i in 01 02 03 04 05 06 07 08 09 10 11 12 13 14 15 16 17 18 19 20; do
  [ -d "$root/C$i" ] || git -C /repo worktree add -q --detach "$root/C$i" HEAD
done
ls "$root" | wc -l
