#!/usr/bin/env python3
import glob, json, os, subprocess, sys, shutil
V = os.path.dirname(os.path.dirname(os.path.abspath(__file__)))
prop = sys.argv[1]; tier = sys.argv[2] if len(sys.argv) > 2 else 'quick'
env = dict(os.environ, VERIF_MAX_VIOL='200000', VERIF_KEEP_RUN='1', VERIF_OUT='/root/.vscratch/triage')
p = subprocess.run([os.path.join(V, 'vcheck'), prop, tier], env=env, capture_output=True, text=True)
print('\n'.join(l[:300] for l in p.stdout.splitlines() if l.startswith(('C', 'INCONC'))) )
groups = {}
for d in glob.glob(os.path.join(V, '.run', prop + '-*')):
    for f in glob.glob(os.path.join(d, 'out*.json')):
        for r in json.load(open(f)).get('violations', []):
            k = (r['kind'], json.dumps(r['case'].get('features'), sort_keys=True))
            size = len(json.dumps(r['case']))
            g = groups.setdefault(k, [0, None, 10**9])
            g[0] += 1
            if size < g[2]:
                g[1], g[2] = r, size
    shutil.rmtree(d, ignore_errors=True)
for k, (n, r, _) in sorted(groups.items(), key=lambda kv: -kv[1][0])[:14]:
    print(n, k)
    print('     case  :', json.dumps(r['case'], ensure_ascii=False)[:330])
    print('     detail:', json.dumps(r['detail'], ensure_ascii=False)[:330])
