#!/usr/bin/env python3
"""triage4.py <Cxx> [tier] key1,key2..: group by kind + selected case keys; compact output"""
import glob, json, os, subprocess, sys, shutil
V = os.path.dirname(os.path.dirname(os.path.abspath(__file__)))
prop = sys.argv[1]; tier = sys.argv[2] if len(sys.argv) > 2 else 'quick'
keys = sys.argv[3].split(',') if len(sys.argv) > 3 else []
env = dict(os.environ, VERIF_MAX_VIOL='200000', VERIF_KEEP_RUN='1', VERIF_OUT='/root/.vscratch/triage')
subprocess.run([os.path.join(V, 'vcheck'), prop, tier], env=env, stdout=subprocess.DEVNULL)
groups = {}
for d in glob.glob(os.path.join(V, '.run', prop + '-*')):
    for f in glob.glob(os.path.join(d, 'out*.json')):
        for r in json.load(open(f)).get('violations', []):
            det = r['detail']
            why = ' '.join(str(det.get('why', det.get('exc', ''))).split()[:5]) if isinstance(det, dict) else ''
            k = (r['kind'],) + tuple(str(r['case'].get(x)) for x in keys) + (why,)
            size = len(json.dumps(r['case']))
            g = groups.setdefault(k, [0, None, 10**9])
            g[0] += 1
            if size < g[2]:
                g[1], g[2] = r, size
    shutil.rmtree(d, ignore_errors=True)
for k, (n, r, _) in sorted(groups.items(), key=lambda kv: -kv[1][0])[:25]:
    print(n, k)
    c = {x: y for x, y in r['case'].items() if x not in ('truth', 'expected')}
    print('     case  :', json.dumps(c, ensure_ascii=False)[:420])
    print('     detail:', json.dumps(r['detail'], ensure_ascii=False)[:420])
