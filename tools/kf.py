#!/usr/bin/env python3
"""kf.py fixed <id> <property> <commit> <what>   |   kf.py open <id> <property> <what>"""
import json, sys, os
P = os.path.join(os.path.dirname(os.path.dirname(os.path.abspath(__file__))), 'known_findings.json')
d = json.load(open(P))
mode, fid, prop = sys.argv[1:4]
if mode == 'fixed':
    commit, what = sys.argv[4], sys.argv[5]
    e = {'id': fid, 'property': prop, 'status': 'fixed', 'commit': commit, 'what': what,
         'record': 'fixed: property=%s %s %s' % (prop, commit, what)}
else:
    what = sys.argv[4]
    e = {'id': fid, 'property': prop, 'status': 'open', 'what': what,
         'record': 'open: property=%s %s' % (prop, what)}
d['findings'] = [x for x in d['findings'] if x['id'] != fid] + [e]
json.dump(d, open(P, 'w'), indent=1, ensure_ascii=False)
print('recorded', fid)
