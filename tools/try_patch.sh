#!/bin/sh
# try_patch.sh <seeded-dir-name> <Cxx> [tier] : applies seeded/<dir>/patch.diff to a scratch copy of /repo and runs one check against it
d=/root/.vscratch/try-$$
rm -rf $d; mkdir -p /root/.vscratch
rsync -a --exclude .git --exclude __pycache__ --exclude '*.egg-info' /repo/ $d/
here="$(cd "$(dirname "$0")/.." && pwd)"
( cd $d && patch -p1 -s -i $here/seeded/$1/patch.diff ) || { echo "patch failed"; rm -rf $d; exit 2; }
VERIF_REPO=$d VERIF_OUT=$d.out $here/vcheck $2 ${3:-quick} 2>&1 | grep -vE "^  (classes|monitors|distinct)" | cut -c1-400 | head -${LINES_OUT:-6}
rm -rf $d $d.out
