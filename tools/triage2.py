#!/usr/bin/env python3
"""triage2.py <Cxx> [tier] [feature-keys...]: like triage.py but groups by kind + case['features'] subset"""
import glob, json, os, subprocess, sys, shutil
V = os.path.dirname(os.path.dirname(os.path.abspath(__file__)))
prop = sys.argv[1]; tier = sys.argv[2] if len(sys.argv) > 2 else 'quick'
env = dict(os.environ, VERIF_MAX_VIOL='200000', VERIF_KEEP_RUN='1', VERIF_OUT='/root/.vscratch/triage')
subprocess.run([os.path.join(V, 'vcheck'), prop, tier], env=env, stdout=subprocess.DEVNULL)
groups = {}
for d in glob.glob(os.path.join(V, '.run', prop + '-*')):
    for f in glob.glob(os.path.join(d, 'out*.json')):
        for r in json.load(open(f)).get('violations', []):
            fe = r['case'].get('features', {})
            det = r['detail']
            why = str(det.get('why', ''))[:40] if isinstance(det, dict) else ''
            k = (r['kind'], json.dumps(fe, sort_keys=True), why)
            size = len(json.dumps(r['case']))
            g = groups.setdefault(k, [0, None, 10**9])
            g[0] += 1
            if size < g[2]:
                g[1], g[2] = r, size
    shutil.rmtree(d, ignore_errors=True)
for k, (n, r, _) in sorted(groups.items(), key=lambda kv: -kv[1][0]):
    print(n, k)
    c = dict(r['case']); c.pop('truth', None)
    print('     case  :', json.dumps(c, ensure_ascii=False)[:500])
    print('     detail:', json.dumps(r['detail'], ensure_ascii=False)[:400])
