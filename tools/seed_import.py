#!/usr/bin/env python3
"""seed_import.py <Cxx> <slug> "<what it needs to manifest>" [--also Cyy,...]

Imports the uncommitted change a sub-agent left in /tmp/seed/<Cxx> into
/verif/seeded/<Cxx>-<slug>/ after confirming, in a scratch copy of /repo outside /repo and
/verif: demo passes without the change, repo tests pass with it, demo fails with it; then runs
the property's quick check (and any --also checks) against the patched copy and records the
result in meta.json."""
import json
import os
import shutil
import subprocess
import sys

V = os.path.dirname(os.path.dirname(os.path.abspath(__file__)))
PY = '/venv/bin/python'


def sh(cmd, cwd=None, env=None):
    r = subprocess.run(cmd, cwd=cwd, env=env, capture_output=True, text=True)
    return r.returncode, (r.stdout + r.stderr)


def main():
    prop, slug, needs = sys.argv[1:4]
    also = []
    if '--also' in sys.argv:
        also = sys.argv[sys.argv.index('--also') + 1].split(',')
    wt = os.environ.get('SEED_ROOT', '/tmp/seed') + '/' + prop
    dest = os.path.join(V, 'seeded', '%s-%s' % (prop, slug))
    os.makedirs(dest, exist_ok=True)
    rc, patch = sh(['git', '-C', wt, 'diff', '--', 'emmet'])
    assert patch.strip(), 'no uncommitted change under emmet/ in ' + wt
    with open(os.path.join(dest, 'patch.diff'), 'w') as f:
        f.write(patch)
    for name in ('demo.py', 'NOTES.md'):
        if os.path.exists(os.path.join(wt, name)):
            shutil.copy(os.path.join(wt, name), os.path.join(dest, name))
    scratch = '/root/.vscratch/seed-' + prop
    shutil.rmtree(scratch, ignore_errors=True)
    os.makedirs('/root/.vscratch', exist_ok=True)
    subprocess.run(['rsync', '-a', '--exclude', '.git', '--exclude', '__pycache__', '--exclude', '*.egg-info', '/repo/', scratch + '/'], check=True)
    shutil.copy(os.path.join(dest, 'demo.py'), os.path.join(scratch, 'demo.py'))
    env = dict(os.environ, PYTHONPATH=scratch, PYTHONDONTWRITEBYTECODE='1')
    res = {}
    res['demo_without_change'] = sh([PY, '-B', 'demo.py'], scratch, env)[0]
    rc, out = sh(['patch', '-p1', '-s', '-i', os.path.join(dest, 'patch.diff')], scratch)
    assert rc == 0, 'patch does not apply to /repo HEAD: ' + out
    rc, out = sh([PY, '-B', '-m', 'pytest', '-q', '-p', 'no:cacheprovider', '--timeout=900'], scratch, env)
    res['repo_tests_with_change'] = out.strip().splitlines()[-1] if out.strip() else 'no output'
    res['demo_with_change'] = sh([PY, '-B', 'demo.py'], scratch, env)[0]
    checks = {}
    for c in [prop] + also:
        outdir = scratch + '.out'
        rc, out = sh([os.path.join(V, 'vcheck'), c, 'quick'], V, dict(os.environ, VERIF_REPO=scratch, VERIF_OUT=outdir))
        kinds = next((l.strip() for l in out.splitlines() if 'unexplained violations by kind' in l), '')
        first = next((l.strip() for l in out.splitlines() if l.strip().startswith('kind=')), '')
        checks[c] = {'exit': rc, 'verdict': 'CAUGHT' if rc == 1 else 'MISSED', 'violations': kinds[:300], 'first_witness': first[:400]}
        shutil.rmtree(outdir, ignore_errors=True)
    shutil.rmtree(scratch, ignore_errors=True)
    valid = res['demo_without_change'] == 0 and res['demo_with_change'] != 0 and res['repo_tests_with_change'].startswith('141 passed')
    meta = {'property': prop, 'origin': 'independent sub-agent (given only the property text and a scratch worktree)',
            'needs_to_manifest': needs, 'confirmed': res, 'valid': valid, 'checks': checks,
            'also_detected_by': [c for c in also if checks[c]['exit'] == 1],
            'ran': ['demo.py on a clean scratch copy of /repo', 'patch -p1 < patch.diff', 'repo test suite', 'demo.py again',
                    './vcheck %s quick with VERIF_REPO=<scratch copy>' % prop]}
    with open(os.path.join(dest, 'meta.json'), 'w') as f:
        json.dump(meta, f, indent=1)
    print(json.dumps({'valid': valid, 'confirmed': res, 'checks': {k: (v['verdict'], v['violations'][:160]) for k, v in checks.items()}}, indent=1))


if __name__ == '__main__':
    main()
