#!/usr/bin/env python3
"""Regenerates /verif/MANIFEST.json from the table below (one entry per claimed property).
Properties that have no check module yet are listed under not_applicable with that reason."""
import json
import os

VERIF = os.path.dirname(os.path.dirname(os.path.abspath(__file__)))

CLAIMS = {
    'C01': ('reference-model monitor at the expand() boundary (depth-sequence tree model vs independently parsed tag stream), exhaustive operator skeletons + random large ones',
            'Held on every enumerated skeleton up to the bound and on the sampled large ones, for 3 self-closing styles x format on/off; says nothing about skeleton shapes beyond the bound that were not sampled.'),
    'C02': ('reference-model monitor (numbering formula + maxRepeat budget simulation) over uniquely tagged counter sites; probe on convert_statement/RepeaterNumber hooked state',
            'Held on all enumerated (N, width, base, reverse, site, nesting) combinations and random nested trees with limits; unique site tags make every output attribute attributable to one written site and copy.'),
    'C03': ('reference-model monitor on attribute lists of output tags (merge/quote/boolean/implied/name-mapping rules) across syntaxes and attribute options',
            'Held on all enumerated mention sequences up to the bound and random longer ones x option tuples; merges the statement leaves undefined (mixed boolean/implied/expression duplicates) are not generated.'),
    'C04': ('by-construction oracle: generated payload must come back verbatim as the text node / at every $# site, for inline text and wrap lines',
            'Held on all payloads up to the bound over the full punctuation alphabet in every text position and on wrap-line lists incl. syntax look-alikes.'),
    'C05': ('by-construction oracle for stylesheet value lists (units, aliases, dash rule, colours compared by value, !important) across syntaxes/options; probe on color()',
            'Held on every enumerated colour / value list up to the bound and random longer lists with random unit options.'),
    'C06': ('whole-table monitor: every built-in key/keyword x syntax x scope against the raw snippet table; random user tables',
            'Exhaustive over the built-in table (keys, dash-free keywords in 3 letter cases) for every stylesheet syntax and scope; user tables sampled.'),
    'C07': ('exception-type/position monitor at expand() with logical-step termination budget; exhaustive short strings + mutations x 16 syntaxes x option sets; reach map over emmet.*',
            'Held on every enumerated string up to the bound and on the mutation corpus; a clean run is not a proof for longer inputs.'),
    'C08': ('offline history checker (probe result after history == probe result in pristine state), state census after each call, injected faults at function-entry failpoints',
            'Held on all generated histories (shared Config / cache / failing calls) and injected faults; the census compares module-level state and live emmet objects with the post-import baseline.'),
    'C09': ('ground-truth monitor: generator records every element/attribute range while writing the document; match/balanced_* compared at every position',
            'Held on every position of every generated well-formed document (HTML and XML mode).'),
    'C10': ('ground-truth monitor on generated stylesheets (rules, ;-terminated declarations, decoys) at every position',
            'Held on every position of every generated stylesheet except the recorded findings.'),
    'C11': ('consistency monitor on extract() fields for all lines/positions + round-trip oracle (embedded valid abbreviation must come back) on two separated domains',
            'Consistency held exhaustively up to the bound; round trip held on domain D1; D2 failures only of the two heuristic mechanisms still recorded as open.'),
    'C12': ('metamorphic monitor: same abbreviation under two formatting option sets must give equal tag/attribute/text streams; depth-indent rule per output line',
            'Held on all generated (abbreviation, option set) pairs for the 6 HTML-formatter syntaxes.'),
    'C13': ('offline trace checker over the log of output.field/output.text callback invocations (offset/line/column vs final result) + tabstop numbering oracle; probe on OutputStream state',
            'Held on every callback event of every run (several newline strings, indents, callback behaviours).'),
    'C14': ('metamorphic monitor alias == definition for every built-in markup snippet x suffix forms; termination/depth monitor on random cyclic user tables (step budget + resolve-depth probe)',
            'Exhaustive over built-in html/xsl/pug snippet tables; user tables sampled.'),
    'C15': ('line oracle for haml/pug/slim output: indentation == depth in reference tree, header spelling, multi-line text; tree equality with the HTML rendering',
            'Held on all generated trees x 3 syntaxes x indent strings.'),
    'C16': ('structural monitor on scanner callbacks and matcher results (totality, 0<=s<=e<=len, tag shape, ordering, nesting) on exhaustive short strings, mutated documents and all positions -1..len+1',
            'Held on every enumerated string up to the bound x all positions, and on the mutation corpus.'),
    'C17': ('ground-truth monitor for get_open_tag/select_item_html/get_css_section/select_item_css on generated documents at every position',
            'Held on every position of every generated HTML/CSS document.'),
    'C18': ('span-tiling monitor on token lists of both tokenizers; exhaustive short strings, random long ones, prefixes of valid abbreviations; token-bigram coverage',
            'Held on every string up to the enumerated bound in markup / stylesheet property / stylesheet value mode; beyond the bound only sampled.'),
    'C19': ('reference-model monitor (independent recursive-descent evaluator) + exception-type monitor; structural oracle for extract() ranges',
            'Exhaustive over all token sequences up to the bound; random deeper ones sampled.'),
    'C20': ('reference-model monitor of the 6-layer override order over all 2^5 layer subsets x key kinds x syntaxes, observed on Config and through expand; structural digests of built-in tables and caller dicts before/after',
            'Exhaustive over the stated finite table.'),
}


HOSTILE_IDS = {'C01', 'C02', 'C03', 'C04', 'C05', 'C06', 'C07', 'C12', 'C13', 'C14', 'C15'}
HOSTILE = ('; monitored calls are made in a hostile calling context (vmon/hostile.py: failing calls, raising callbacks, injected faults at function entries, '
           'kept Config objects tuned in place, poisoned caches between them; calls from inside callbacks of a running expand(); Config-object entry; argument forms)')
KEPT = {'C09': '; result objects read again later (retained oracle), calls from inside scan callbacks, one options dictionary kept across documents, markupsafe-like / str-subclass documents',
        'C10': '; result objects read again later (retained oracle), calls from inside scan callbacks, markupsafe-like / str-subclass documents',
        'C17': '; result objects read again later (retained oracle), one options dictionary kept across documents, markupsafe-like / str-subclass documents',
        'C18': '; the caller edits an earlier result and asks again; str-subclass inputs',
        'C08': '; equal dictionaries with their keys in the opposite order',
        'C20': '; layers must leave no trace for calls that do not carry them; the call config digested before / after with the other top-level keys riding along',
        'C11': '; str-subclass lines, options as other Mapping types', 'C19': '; str-subclass expressions, options as other Mapping types',
        'C16': '; near-miss runs inside every construct the scanners read'}
COMMON = ('; shards run under varied process state (hash seed, -O, -W error); every monitored call under a CPU-time budget '
          '(a call that burns it is a termination violation, not a watchdog expiry)')


def main():
    checks = []
    na = []
    for i in range(1, 21):
        pid = 'C%02d' % i
        if os.path.exists(os.path.join(VERIF, 'vmon', 'props', pid + '.py')):
            tech, text = CLAIMS[pid]
            checks.append({
                'property_id': pid,
                'quick_cmd': './vcheck %s quick' % pid,
                'thorough_cmd': './vcheck %s thorough' % pid,
                'evidence_file': 'evidence/%s.json' % pid,
                'replay_cmd_template': './vcheck replay {path}',
                'engine': 'vmon',
                'level_claimed': {'category': 'exploration', 'text': text, 'design_ref': 'DESIGN.md section 2, ' + pid},
                'level_note': 'Trusted: CPython 3.12.1, sys.monitoring, the reference model / output parser / generator bookkeeping '
                              'of this property (cross-validated on the unchanged tree). Decides only the executions it produced: '
                              'held on K monitored executions, never verified.',
                'technique': 'runtime monitoring: ' + tech + (HOSTILE if pid in HOSTILE_IDS else '') + (KEPT.get(pid, '')) + COMMON,
            })
        else:
            na.append({'property_id': pid, 'reason': 'check not built yet (work in progress; a runtime monitor is designed in DESIGN.md section 2)'})
    man = {
        'version': 1,
        'setup_cmd': '/venv/bin/python -B -c "import sys, emmet; assert sys.version_info >= (3, 12); print(emmet.__file__)"',
        'hooks': {
            'guard': 'EMMET_VERIF_PROBES',
            'enable': 'no source hooks in /repo: probes are CPython sys.monitoring local events attached by the harness to the real code objects '
                      '(EMMET_VERIF_PROBES=1, default inside checks; 0 leaves only the API-boundary oracles)',
            'baseline_off_cmd': 'cd /repo && /venv/bin/python -m pytest -ra -q -p no:cacheprovider --timeout=900 --continue-on-collection-errors',
            'source_commits': [],
            'add_only': True,
        },
        'engines': [{'name': 'vmon', 'path': 'vmon/', 'serves_properties': [c['property_id'] for c in checks],
                     'kind_free_text': 'runtime monitoring framework: boundary recorders + reference-model/ground-truth/metamorphic oracles, '
                                       'sys.monitoring probes, state census, fault injection, hostile calling context, process-state variation, CPU budget per call; shards in subprocesses'}],
        'checks': checks,
        'notes': 'All checks run the real code of /repo\'s working tree (PYTHONPATH=/repo, asserted in every worker). '
                 'Exit 0 held / 1 violated / 2 inconclusive. Known findings: known_findings.json.',
        'not_applicable': na,
    }
    with open(os.path.join(VERIF, 'MANIFEST.json'), 'w') as f:
        json.dump(man, f, indent=1)
    print('claimed', len(checks), 'not yet', len(na))


if __name__ == '__main__':
    main()
