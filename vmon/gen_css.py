"""Generator of stylesheets (CSS/SCSS/LESS with nested rules) that records where every rule,
declaration, value and value token lies (ground truth for C10, C16 mutations and C17)."""
from .gen_html import Writer

SELECTORS = ['a', '.b > c', 'a:hover', '&:not(.x)', '@media (min-width: 100px)', 'a[href="{"]', 'x::before', 'd', 'ul li', '#id.cls',
             '@supports (display: grid) and (not (display: inline-grid))', 'a[title="}"]', "b[data-x='a;b']", '.a,\n.b',
             '@media screen and (max-width:100px)', '&-suffix', 'h1 + h2', '*', 'a:hover:focus', 'li:nth-child(2n+1)', '@font-face',
             'a /* c */ b', '.x::after', '@include mq($from: mobile)', '@media (min-width:/* { */ 100px)', '@include m($a:/* ; */1)',
             # selectors that BEGIN with a colon (the rule starts at the colon)
             ':root', '::selection', ':hover', '::-webkit-scrollbar', ':not(.a):focus', ':is(a, b) c', '::before']
NAMES = ['color', '--x', '$v', 'margin-left', 'background', '@w', 'font', '*zoom', '_height', 'filter', 'grid-area']
AFTER_NAME = [':', ': ', ' : ', ':\n    ', ':\t']
# value = list of tokens (joined by single blanks); the token list is the C17 ground truth
VALUES = [['red'], ['1px', 'solid', '#000'], ['"a;b}"'], ["'x\\'y'"], ['calc(1px + (2 * 3))'], ['10px', '20px'], ['url("a;b")'],
          ['url(a.png)', 'no-repeat'], ['a', '/', 'b'], ['1px', '-', '2px'], ['a,', 'b'], ['rgba(0, 0, 0, .5)'], ['"{"'], ['!important'],
          ['1px', '!important'], ['"a:b"'], ['f(a:b)'], ['#fff'], ['-1px'], ['no-repeat'], ['a', '+', 'b'], ['"\\""'], ['var(--x, "}")'],
          ['1px', '*', '2'], ['"/*"'],
          # nested parentheses with colons at both depths (Sass maps, function arguments)
          ['(small: (min: 0, max: 599px), large: 600px)'], ['(bg: darken($c, 10%), border: $c)'], ['f(g(a:b), c:d)'], ['((a:b):c)'], ['map-get((k: (x: 1)), k)', 'x:y'.replace(':', '-')], ['1px', '2px', '3px', '4px', '5em', '6%', 'auto', 'inherit', '0'], ['a', 'b', 'c', '/', 'd', 'e', 'f', 'g']]
# a colon OUTSIDE parentheses and strings inside a value (custom properties, the legacy `progid:` filters): the FIRST colon of a declaration delimits
VALUES += [['"a\\\nb;}"'], ['"a\\\r\nb;}"', 'x'], ["'p\\\r\n{q'"]]        # a backslash before a line break (LF or CRLF) continues the string on the next line
# long strings continued over a line break (legal CSS; 25+ ordinary characters before the escape: the length at which a pattern with a nested quantifier stalls)
VALUES += [['"Hover the icon to see what {this; option} does, \\\nthen click it"'], ["'Lorem ipsum dolor sit amet, consectetur adipisicing \\\r\nelit; sed }'", 'x'],
           ['"aaaaaaaaaaaaaaaaaaaaaaaaaaaaaaaaaaaaaaaaaa\\\n"']]
VALUES += [['url(//cdn.x/y.png)', 'no-repeat'], ['image-set(url(//a.b/c) 1x)']]       # (two slashes inside parentheses are a protocol-relative URL, not a line comment)
VALUES += [['a:b'], ['progid:DXImageTransform.Microsoft.gradient(startColorstr=#80000000)'], ['c', 'd:e', 'f'], ['1:2:3'], ['x', ':', 'y']]
VALUES_WITH_COMMENT = [['x', '/* v */', 'y'], ['1px', '/* ; } */', 'solid'], ['f(a:/* ; } */b)'], ['(k:/* { */ v)', 'w']]
# a Sass map written over several lines, with line comments after its entries (they may hold anything: `;`, braces, an unbalanced parenthesis)
VALUES_WITH_COMMENT += [['(\n  sm: 576px, // phones; small {\n  md: 768px\n)'], ['(a: 1, // 1) first\n b: 2)'], ['f(x, // }\n y)', 'z']]
SEMI_IN_PAREN = [['url(data:image/png;base64,aaa)'], ['url(data:x;y)', 'no-repeat'], ['f(a;b)']]
# (the same recorded mechanism with braces: SCSS interpolation inside a function)
SEMI_IN_PAREN += [['calc(100% - #{$gap})'], ['url(#{$p}/a.png)', 'no-repeat'], ['percentage(math.div(#{$i}, 12))'], ['f(#{a}, #{b})', 'x']]
COMMENTS = ['/* a:b; } */', '/* { */', '/**/', '/* x */', '/* ; */', '/*\n * multi\n */']
# the line comments of SCSS / LESS / Stylus (each ends with its line break)
COMMENTS += ['// x\n', "// don't {\n", '// a: b;\n', '//\n', '// } /* \n', '// "q\r\n']
WS = [' ', '\n  ', '', '\n', '\t', '  ']


def gen_decl(rng, w, recs, parent, semi_in_paren=False, allow_nosemi=False, last=False):
    name = rng.choice(NAMES)
    ns, ne = w.add(name)
    w.add(rng.choice(AFTER_NAME))
    colon = w.parts[-1].index(':') + ne
    if rng.random() < 0.06:
        toks = []
    elif semi_in_paren:
        toks = rng.choice(SEMI_IN_PAREN)
    elif not allow_nosemi and rng.random() < 0.05:
        toks = rng.choice(VALUES_WITH_COMMENT)      # C10 only (C17 asks for value tokens, which comments blur)
    else:
        toks = rng.choice(VALUES)
    lead = toks and not semi_in_paren and not allow_nosemi and rng.random() < 0.06
    if lead:
        w.add(rng.choice(['/* lead */ ', '/* ; } */', '/* a:b */\n  ']))      # a comment before the value is not part of it (C10 only, like the values with comments)
    vs = w.pos
    tr = []
    for j, t in enumerate(toks):
        if j:
            w.add(' ')
        tr.append(w.add(t))
    ve = w.pos
    if lead and rng.random() < 0.5:
        w.add(rng.choice([' /* trail */', '/* ; */ ']))       # ... nor is a comment after it
    if not toks:
        vs = ve = None       # empty value: any empty range between colon and semicolon is accepted
    nosemi = allow_nosemi and last and bool(toks) and rng.random() < 0.5
    if nosemi:
        semi = None
        end = ve if ve is not None else w.pos
    else:
        w.add(rng.choice(['', '', ' ', '\n']))
        semi, _ = w.add(';')
        end = semi + 1
    d = {'type': 'decl', 'start': ns, 'name_end': ne, 'colon': colon, 'vs': vs, 've': ve, 'semi': semi, 'end': end,
         'parent': parent, 'toks': toks, 'tr': tr, 'sip': semi_in_paren, 'children': []}
    recs.append(d)
    if parent is not None:
        parent['children'].append(d)
        parent['items'].append(d)
    return d


def rand_comment(rng):
    "any body whose first closing pair is the comment's own: runs of asterisks and slashes, braces, semicolons, quotes"
    while True:
        body = ''.join(rng.choice(['*', '*', '/', ' ', 'a', '{', '}', ';', ':', '\n', '"', "'", '**', '\\']) for _ in range(rng.randint(0, 8)))
        full = '/*' + body + '*/'
        if full.find('*/', 2) == len(full) - 2:
            return full


def gen_rule(rng, depth, w, recs, parent, max_depth=3, max_items=3, p_sip=0.0, allow_nosemi=False):
    sel = rng.choice(SELECTORS)
    start, send = w.add(sel)
    w.add(rng.choice([' ', '', '\n', ' /* s */ ']))
    brace, _ = w.add('{')
    rec = {'type': 'rule', 'start': start, 'sel_end': send, 'brace': brace, 'children': [], 'items': [], 'parent': parent, 'depth': depth}
    recs.append(rec)
    if parent is not None:
        parent['children'].append(rec)
        parent['items'].append(rec)
    n = rng.randint(0, max_items) if rng.random() < 0.95 else rng.randint(max_items + 2, max_items + 9)
    for i in range(n):
        w.add(rng.choice(WS))
        if rng.random() < 0.2:
            w.add(rng.choice(COMMENTS) if rng.random() < 0.5 else rand_comment(rng))
            w.add(rng.choice([' ', '\n']))
        if depth < max_depth and rng.random() < (0.35 if max_depth <= 4 else 0.7):
            gen_rule(rng, depth + 1, w, recs, rec, max_depth, max_items, p_sip, allow_nosemi)
        else:
            gen_decl(rng, w, recs, rec, rng.random() < p_sip, allow_nosemi, last=(i == n - 1))
    w.add(rng.choice([' ', '\n', '', ' /* e */ ']))
    close, _ = w.add('}')
    rec['close'] = close
    rec['end'] = close + 1
    return rec


def gen_sheet(rng, max_top=3, max_depth=3, max_items=3, p_sip=0.0, allow_nosemi=False, top_decls=True):
    w = Writer()
    recs = []
    for _ in range(rng.randint(1, max_top)):
        w.add(rng.choice(['', '\n', '/* x { } */\n', ' ', '/* a:b; */']))
        if top_decls and rng.random() < 0.25:
            w_name = rng.choice(['$var', '--custom', '@less-var'])
            # top-level variable declaration
            ns, ne = w.add(w_name)
            w.add(': ')
            tv = rng.choice(['1px', 'red', '"a}b"', '(1 + 2)'])
            vs, ve = w.add(tv)
            semi, _ = w.add(';')
            recs.append({'type': 'decl', 'start': ns, 'name_end': ne, 'colon': ne, 'vs': vs, 've': ve, 'semi': semi, 'end': semi + 1,
                         'parent': None, 'toks': [tv], 'tr': [(vs, ve)], 'sip': False, 'children': []})
            w.add(rng.choice(['\n', ' ', '']))
        gen_rule(rng, 0, w, recs, None, max_depth, max_items, p_sip, allow_nosemi)
    w.add(rng.choice(['', '\n', ' ', '/* end */']))
    src = w.text()
    self_check(src, recs)
    return src, recs


def self_check(src, recs):
    for r in recs:
        if r['type'] == 'rule':
            assert src[r['brace']] == '{' and src[r['close']] == '}', r
            assert src[r['start']:r['sel_end']].strip() == src[r['start']:r['sel_end']]
        else:
            assert src[r['colon']] == ':', (src[r['start']:r['end']], r['colon'])
            if r['semi'] is not None:
                assert src[r['semi']] == ';'
            if r['toks']:
                assert src[r['vs']:r['ve']] == ' '.join(r['toks'])


def inner_range(src, a, b):
    "content range of a rule body: the body without surrounding blanks, None when empty"
    while a < b and src[a] in ' \t\n\r\xa0':
        a += 1
    while b > a and src[b - 1] in ' \t\n\r\xa0':
        b -= 1
    return (a, b) if a != b else None
