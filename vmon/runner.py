"""Shard fan-out, merge, three-valued verdict, evidence file, exit code.

    python -B -m vmon.runner <Cxx> quick|thorough
    python -B -m vmon.runner replay <file>

exit 0 = held on everything observed (known findings are listed, not alarms)
exit 1 = violated  (prints VIOLATION property=<id> replay=<path>)
exit 2 = inconclusive (coverage floor missed, shard died, watchdog) - never folded
         into the other two.
"""
import array
import hashlib
import importlib
import json
import os
import shutil
import subprocess
import sys
import time
from collections import Counter

from . import core

PY = '/venv/bin/python'
SHARD_TIMEOUT = {'quick': 600, 'thorough': 7200}
MAX_PROCS = {'quick': 12, 'thorough': 16}


def tree_identity():
    def run(*a):
        try:
            return subprocess.run(a, capture_output=True, text=True, timeout=30).stdout
        except Exception as e:       # noqa
            return 'unavailable: %r' % e
    head = run('git', '-C', core.REPO, 'rev-parse', 'HEAD').strip()
    diff = run('git', '-C', core.REPO, 'diff', 'HEAD', '--', 'emmet')
    return {'repo_head': head,
            'worktree_diff_sha': hashlib.sha256(diff.encode()).hexdigest()[:16] if diff.strip() else 'clean'}


def worker_env():
    env = dict(os.environ)
    env['PYTHONPATH'] = core.VERIF + os.pathsep + core.REPO
    env['PYTHONHASHSEED'] = '0'
    env['PYTHONDONTWRITEBYTECODE'] = '1'
    env.setdefault('EMMET_VERIF_PROBES', '1')
    return env


def shard_process_state(seed, i):
    """The interpreter state a host application may have: hash randomisation (odd shards run under a seed of their own, derived from
    VERIF_SEED and the shard number - code that leans on the order of a set or dict of strings is right under one seed only) and warnings
    turned into errors / assertions stripped (every fourth shard each).  Even shards keep PYTHONHASHSEED=0."""
    if os.environ.get('VERIF_PROCESS_STATE', '1') == '0':
        return {'PYTHONHASHSEED': '0', 'flags': []}
    hs = '0' if i % 2 == 0 else str((seed * 7919 + i * 104729 + 1) % 4294967295)
    # every fourth shard runs with assertions stripped (-O: an `assert` that does real work disappears; the harness's own asserts are
    # self-checks of generated data and are covered by the other shards), every fourth with warnings turned into errors
    return {'PYTHONHASHSEED': hs, 'flags': ['-W', 'error'] if i % 4 == 3 else (['-O'] if i % 4 == 1 else [])}


def run_shards(prop, tier, seed, descs, run_dir, state=None):
    procs = {}
    results = [None] * len(descs)
    pending = list(range(len(descs)))
    maxp = int(os.environ.get('VERIF_PROCS', MAX_PROCS[tier]))
    env = worker_env()
    deadline = SHARD_TIMEOUT[tier]
    while pending or procs:
        while pending and len(procs) < maxp:
            i = pending.pop(0)
            dp = os.path.join(run_dir, 'desc%d.json' % i)
            op = os.path.join(run_dir, 'out%d.json' % i)
            with open(dp, 'w') as f:
                json.dump(descs[i], f)
            log = open(os.path.join(run_dir, 'log%d.txt' % i), 'w')
            st = state or shard_process_state(seed, i)
            p = subprocess.Popen([PY, '-B'] + list(st['flags']) + ['-m', 'vmon.worker', prop, tier, str(seed), str(i), dp, op],
                                 cwd=core.VERIF, env=dict(env, PYTHONHASHSEED=st['PYTHONHASHSEED'], VERIF_SHARD_STATE=json.dumps(st)),
                                 stdout=log, stderr=subprocess.STDOUT)
            procs[i] = (p, time.time(), op, log)
        time.sleep(0.05)
        for i in list(procs):
            p, t0, op, log = procs[i]
            rc = p.poll()
            if rc is None:
                if time.time() - t0 > deadline:
                    p.kill()
                    p.wait()
                    results[i] = {'status': 'watchdog', 'error': 'shard %d exceeded %ds wall clock' % (i, deadline)}
                    log.close()
                    del procs[i]
                continue
            log.close()
            del procs[i]
            if os.path.exists(op):
                with open(op) as f:
                    results[i] = json.load(f)
                results[i]['_bin'] = op + '.bin'
            else:
                with open(os.path.join(run_dir, 'log%d.txt' % i)) as f:
                    tail = f.read()[-3000:]
                results[i] = {'status': 'died', 'error': 'shard %d exited rc=%s without output\n%s' % (i, rc, tail)}
    return results


def merge(results):
    m = {'anomalies': Counter(), 'anomaly_examples': {}, 'counts': Counter(), 'monitors': Counter(), 'states': {}, 'samples': [], 'violations': [],
         'vcount': Counter(), 'known_hits': Counter(), 'known_examples': {}, 'notes': {}, 'problems': []}
    distinct = set()
    for r in results:
        if r.get('status') != 'ok':
            m['problems'].append('%s: %s' % (r.get('status'), (r.get('error') or '')[-2500:]))
        for k, v in r.get('anomaly_examples', {}).items():
            m['anomaly_examples'].setdefault(k, v)
        for k in ('counts', 'monitors', 'vcount', 'known_hits', 'anomalies'):
            m[k].update(r.get(k, {}))
        for k, v in r.get('states', {}).items():
            m['states'].setdefault(k, set()).update(v)
        for s in r.get('samples', []):
            if len(m['samples']) < 8:
                m['samples'].append(s)
        m['violations'] += r.get('violations', [])
        for k, v in r.get('known_examples', {}).items():
            m['known_examples'].setdefault(k, v)
        for k, v in r.get('notes', {}).items():
            m['notes'].setdefault(k, v)
        b = r.get('_bin')
        if b and os.path.exists(b):
            a = array.array('Q')
            with open(b, 'rb') as f:
                a.frombytes(f.read())
            distinct.update(a)
    m['distinct'] = len(distinct)
    return m


OUT = os.environ.get('VERIF_OUT') or core.VERIF     # selftest redirects evidence/replays of mutant runs


def write_replay(prop, tier, seed, rec, tree):
    os.makedirs(os.path.join(OUT, 'replays'), exist_ok=True)
    digest = hashlib.sha256(json.dumps(rec, sort_keys=True, default=repr).encode()).hexdigest()[:12]
    path = os.path.join(OUT, 'replays', '%s-%s.json' % (prop, digest))
    with open(path, 'w') as f:
        json.dump({'property': prop, 'tier': tier, 'seed': seed, 'tree': tree, 'process_state': rec.get('process_state'), 'context': rec.get('context'),
                   'kind': rec['kind'], 'case': rec['case'], 'detail': rec['detail']}, f, indent=1, default=repr)
    return path


def check(prop, tier):
    seed = int(os.environ.get('VERIF_SEED', '0') or 0)
    t0 = time.time()
    mod = importlib.import_module('vmon.props.' + prop)
    run_dir = os.path.join(core.VERIF, '.run', '%s-%s-%d' % (prop, tier, os.getpid()))
    shutil.rmtree(run_dir, ignore_errors=True)
    os.makedirs(run_dir)
    tree = tree_identity()
    try:
        descs = mod.shards(tier, seed)
        results = run_shards(prop, tier, seed, descs, run_dir)
        m = merge(results)
    finally:
        if not os.environ.get('VERIF_KEEP_RUN'):
            shutil.rmtree(run_dir, ignore_errors=True)
    wall = time.time() - t0

    evaluations = sum(m['counts'].values())
    problems = list(m['problems'])
    floors = getattr(mod, 'FLOORS', {}).get(tier, {})
    for cls, n in floors.items():
        if m['counts'].get(cls, 0) < n:
            problems.append('coverage floor missed: class %s observed %d < %d' % (cls, m['counts'].get(cls, 0), n))
    for name in getattr(mod, 'REQUIRED_MONITORS', []):
        if m['monitors'].get(name, 0) <= 0:
            problems.append('deciding monitor %s was never evaluated' % name)
    if evaluations == 0:
        problems.append('no execution observed')

    n_viol = sum(m['vcount'].values())
    open_known = core.load_known(prop)
    lines = []
    replay_paths = []
    if n_viol:
        verdict = 'violated'
        seen_kinds = set()
        for rec in m['violations']:
            if rec['kind'] in seen_kinds and len(replay_paths) >= 3:
                continue
            seen_kinds.add(rec['kind'])
            if len(replay_paths) < 10:
                replay_paths.append((rec, write_replay(prop, tier, seed, rec, tree)))
    elif problems:
        verdict = 'inconclusive'
    else:
        verdict = 'held'

    LAST_RC[0] = {'held': 0, 'violated': 1, 'inconclusive': 2}[verdict]
    desc = mod.describe(tier) if hasattr(mod, 'describe') else {}
    samples = m['samples'] or [{'note': 'no sample recorded'}]
    coverage = {
        'evaluations': evaluations,
        'distinct_nontrivial': m['distinct'],
        'rule': getattr(mod, 'RULE', ''),
        'samples': samples,
        'exhaustive': bool(desc.get('exhaustive', False)),
        'bounds': desc.get('bounds', {}),
        'classes': dict(sorted(m['counts'].items())),
        'monitors': dict(sorted(m['monitors'].items())),
        'distinct_states_seen': {k: len(v) for k, v in sorted(m['states'].items())},
        'state_examples': {k: sorted(v)[:12] for k, v in sorted(m['states'].items())},
        'probe_anomalies (diagnostic, never a verdict)': dict(m['anomalies']),
        'probe_anomaly_examples': m['anomaly_examples'],
        'known_findings_hit': dict(m['known_hits']),
        'known_finding_examples': m['known_examples'],
        'unexplained_violation_kinds': dict(m['vcount']),
        'coverage_floors': floors,
        'verdict': verdict,
        'problems': problems[:10],
        'tree': tree,
        'shards': len(results),
        'notes': m['notes'],
    }
    evidence = {
        'property_id': prop, 'tier': tier, 'seed': seed, 'level': 'exploration',
        'coverage': coverage,
        'assumptions': getattr(mod, 'ASSUMPTIONS', []),
        'wall_s': round(wall, 2),
        'violations': n_viol,
    }
    os.makedirs(os.path.join(OUT, 'evidence'), exist_ok=True)
    ev_path = os.path.join(OUT, 'evidence', '%s.json' % prop)
    with open(ev_path + '.tmp', 'w') as f:
        json.dump(evidence, f, indent=1, default=repr, ensure_ascii=False)
    os.replace(ev_path + '.tmp', ev_path)

    print('%s %s seed=%d: %s  executions=%d distinct_nontrivial=%d shards=%d wall=%.1fs' %
          (prop, tier, seed, verdict.upper(), evaluations, m['distinct'], len(results), wall))
    print('  classes: ' + ', '.join('%s=%d' % kv for kv in sorted(m['counts'].items())))
    if m['monitors']:
        print('  monitors: ' + ', '.join('%s=%d' % kv for kv in sorted(m['monitors'].items())))
    if m['states']:
        print('  distinct states: ' + ', '.join('%s=%d' % (k, len(v)) for k, v in sorted(m['states'].items())))
    for fid, n in sorted(m['known_hits'].items()):
        e = open_known.get(fid, {})
        print('KNOWN-FINDING: property=%s %s: %s (observed %d times this run)' % (prop, fid, e.get('what', ''), n))
    for k, n in sorted(m['anomalies'].items()):
        print('PROBE-ANOMALY (diagnostic only) property=%s %s x%d e.g. %s' % (prop, k, n, json.dumps(m['anomaly_examples'].get(k), default=repr)[:300]))
    for p in problems:
        print('INCONCLUSIVE property=%s reason=%s' % (prop, p.replace('\n', ' | ')[:1500]))
    for rec, path in replay_paths:
        print('VIOLATION property=%s replay=%s' % (prop, path))
        print('   kind=%s case=%s' % (rec['kind'], json.dumps(rec['case'], default=repr, ensure_ascii=False)[:400]))
        print('   detail=%s' % json.dumps(rec['detail'], default=repr, ensure_ascii=False)[:600])
    if n_viol:
        print('  unexplained violations by kind: %s' % dict(m['vcount']))
    return {'held': 0, 'violated': 1, 'inconclusive': 2}[verdict]


def replay(path):
    with open(path) as f:
        rep = json.load(f)
    prop = rep['property']
    run_dir = os.path.join(core.VERIF, '.run', 'replay-%d' % os.getpid())
    os.makedirs(run_dir, exist_ok=True)
    try:
        descs = [{'replay': True, 'case': rep['case']}]
        results = run_shards(prop, rep.get('tier', 'quick'), rep.get('seed', 0), descs, run_dir, state=rep.get('process_state'))
        m = merge(results)
    finally:
        shutil.rmtree(run_dir, ignore_errors=True)
    for p in m['problems']:
        print('INCONCLUSIVE property=%s reason=%s' % (prop, p[:1500]))
    n = sum(m['vcount'].values())
    if n:
        for rec in m['violations'][:3]:
            print('REPRODUCED property=%s kind=%s detail=%s' % (prop, rec['kind'], json.dumps(rec['detail'], default=repr)[:800]))
        print('VIOLATION property=%s replay=%s' % (prop, path))
        return 1
    if m['known_hits']:
        print('replay matches known finding(s): %s' % dict(m['known_hits']))
    print('replay of %s: not reproduced on the current tree' % path)
    return 2 if m['problems'] else 0


def main(argv):
    try:
        return _main(argv)
    except BrokenPipeError:
        # the reader closed stdout (e.g. `| head`): the verdict is in the evidence file and the exit code
        try:
            sys.stdout = open(os.devnull, 'w')
        except OSError:
            pass
        return LAST_RC[0]


LAST_RC = [2]


def _main(argv):
    if len(argv) == 2 and argv[0] == 'replay':
        return replay(argv[1])
    if len(argv) >= 1 and argv[0].startswith('C'):
        tier = argv[1] if len(argv) > 1 else os.environ.get('VERIF_TIER', 'quick')
        if tier not in ('quick', 'thorough'):
            print('unknown tier %r' % tier)
            return 2
        return check(argv[0], tier)
    print(__doc__)
    return 2


if __name__ == '__main__':
    sys.exit(main(sys.argv[1:]))
