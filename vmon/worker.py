"""Executes one shard of one property's workload in its own process and writes the
observations as JSON.  Invoked by runner.py:
    python -B -m vmon.worker <prop> <tier> <seed> <shard_index> <desc.json> <out.json>
"""
import array
import importlib
import json
import os
import sys
import time
import traceback

from . import core


def main(argv):
    prop, tier, seed, idx, desc_path, out_path = argv
    seed = int(seed)
    idx = int(idx)
    t0 = time.time()
    status = 'ok'
    err = None
    mod = importlib.import_module('vmon.props.' + prop)
    ctx = core.Ctx(prop, tier, seed, idx, getattr(mod, 'CLASSIFIERS', {}))
    try:
        core.install_cpu_guard()
        ctx.notes['emmet_file'] = core.assert_repo_tree()
        with open(desc_path) as f:
            desc = json.load(f)
        if desc.get('replay'):
            ctx.replaying = True
            mod.replay(desc['case'], ctx)
        else:
            mod.run_shard(desc, ctx)
    except core.ShardCutShort as e:
        status = 'cut-short'
        err = str(e)
    except BaseException:            # harness bug or watchdog: inconclusive, never a verdict
        status = 'error'
        err = traceback.format_exc()
    from . import probes
    if probes.CALLBACK_ERRORS and status == 'ok':
        status = 'error'
        err = 'probe callback raised (harness fault): %r' % (dict(probes.CALLBACK_ERRORS),)
    out = ctx.dump()
    out['status'] = status
    out['error'] = err
    out['wall_s'] = time.time() - t0
    out['n_distinct'] = len(ctx.distinct)
    hashes = array.array('Q', list(ctx.distinct)[:1000000])
    with open(out_path + '.bin', 'wb') as f:
        hashes.tofile(f)
    tmp = out_path + '.tmp'
    with open(tmp, 'w') as f:
        json.dump(out, f, default=repr)
    os.replace(tmp, out_path)
    return 0


if __name__ == '__main__':
    sys.exit(main(sys.argv[1:]))
