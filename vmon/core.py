"""Core of the monitoring framework: per-shard observation context, verdicts,
known-finding classification.  Std-lib only, runs under /venv/bin/python 3.12."""
import hashlib
import json
import os
import random
import sys
import time
import traceback
from collections import Counter, defaultdict

VERIF = os.path.dirname(os.path.dirname(os.path.abspath(__file__)))
REPO = os.environ.get('VERIF_REPO', '/repo')
KNOWN_FILE = os.path.join(VERIF, 'known_findings.json')

MAX_VIOL_KEPT = int(os.environ.get('VERIF_MAX_VIOL', '40'))          # unexplained violations kept per shard (all are counted)
MAX_STATES = 20000          # cap per monitor of distinct abstract states kept


class OracleError(Exception):
    "A bug inside harness/oracle code: aborts the shard as inconclusive."


def h64(obj) -> int:
    if not isinstance(obj, (str, bytes)):
        obj = json.dumps(obj, sort_keys=True, default=repr)
    if isinstance(obj, str):
        obj = obj.encode('utf-8', 'surrogatepass')
    return int.from_bytes(hashlib.blake2b(obj, digest_size=8).digest(), 'big')


def load_known(prop_id):
    """Returns {finding_id: entry} of OPEN findings for the property.  Entries with
    status 'fixed' suppress nothing and are therefore not returned."""
    try:
        with open(KNOWN_FILE) as f:
            data = json.load(f)
    except FileNotFoundError:
        return {}
    return {e['id']: e for e in data.get('findings', [])
            if e.get('property') == prop_id and e.get('status') == 'open'}


class Ctx:
    """Observation context handed to a property module for one shard."""

    def __init__(self, prop_id, tier, seed, shard_index=0, classifiers=None):
        self.prop_id = prop_id
        self.tier = tier
        self.seed = seed
        self.shard_index = shard_index
        self.rng = random.Random(h64('%s/%s/%s/%s' % (prop_id, tier, seed, shard_index)))
        self.counts = Counter()          # class -> monitored executions
        self.monitors = Counter()        # monitor/oracle name -> evaluations
        self.states = defaultdict(set)   # monitor -> distinct abstract states seen
        self.distinct = set()            # 64-bit hashes of distinct non-trivial cases
        self.samples = []
        self.violations = []             # unexplained, capped
        self.vcount = Counter()          # kind -> unexplained violation count
        self.anomalies = Counter()       # probe anomalies: diagnostic, never a verdict
        self.anomaly_examples = {}
        self.known_hits = Counter()      # finding id -> hits
        self.known_examples = {}
        self.notes = {}
        self._open = load_known(prop_id)
        self._classifiers = classifiers or {}
        self.hostile = None
        self.replaying = False
        try:
            self.process_state = json.loads(os.environ.get('VERIF_SHARD_STATE', 'null'))
        except ValueError:
            self.process_state = None

    # --- observation bookkeeping -------------------------------------------------
    def ev(self, cls, n=1):
        self.counts[cls] += n

    def mon(self, name, n=1):
        self.monitors[name] += n

    def state(self, monitor, st):
        s = self.states[monitor]
        if len(s) < MAX_STATES:
            s.add(st if isinstance(st, str) else json.dumps(st, default=repr))

    def seen(self, key):
        self.distinct.add(h64(key))

    def sample(self, obj, limit=4):
        if len(self.samples) < limit:
            self.samples.append(obj)

    # --- verdicts -------------------------------------------------------------
    def violation(self, kind, case, detail):
        """Report a refuted execution.  `case` must be enough for replay (JSON-able)."""
        rec = {'kind': kind, 'case': case, 'detail': detail}
        if self.process_state is not None and self.process_state != {'PYTHONHASHSEED': '0', 'flags': []}:
            rec['process_state'] = self.process_state       # hash seed / warning filter of the shard (vmon/runner.py): replay runs under the same
        h = getattr(self, 'hostile', None)
        if h is not None:
            # the calling context the hostile layer had set up (vmon/hostile.py): which steps came before, how the call was made
            rec['context'] = {'call': getattr(h, 'last', 'plain'), 'steps_before': list(h.trail)}
        for fid, pred in self._classifiers.items():
            if fid not in self._open:
                continue
            try:
                hit = pred(rec)
            except Exception:
                raise OracleError('classifier %s crashed:\n%s' % (fid, traceback.format_exc()))
            if hit:
                self.known_hits[fid] += 1
                self.known_examples.setdefault(fid, rec)
                return False
        self.vcount[kind] += 1
        if len(self.violations) < MAX_VIOL_KEPT:
            self.violations.append(rec)
        return True

    def anomaly(self, kind, info):
        """An internal probe saw hooked state it did not expect.  Probes localise faults; they never decide:
        a refactoring that keeps the behaviour may legitimately change internals."""
        self.anomalies[kind] += 1
        self.anomaly_examples.setdefault(kind, info)

    def dump(self):
        return {
            'anomalies': dict(self.anomalies),
            'anomaly_examples': self.anomaly_examples,
            'counts': dict(self.counts),
            'monitors': dict(self.monitors),
            'states': {k: sorted(v) for k, v in self.states.items()},
            'samples': self.samples,
            'violations': self.violations,
            'vcount': dict(self.vcount),
            'known_hits': dict(self.known_hits),
            'known_examples': self.known_examples,
            'notes': self.notes,
        }


class Retained:
    """Results a caller keeps: each object handed out by the library is snapshotted at return time and read again later (after further
    calls on the same and on other inputs).  What a function returned must not change afterwards - a result that a later call rewrites
    (pooled objects, shared lists) was only right for an instant."""

    def __init__(self, every=5, limit=400):
        self.items = []
        self.every = every
        self.limit = limit
        self.n = 0

    def keep(self, obj, snap_fn, case, what):
        self.n += 1
        if obj is None or self.n % self.every or len(self.items) >= self.limit:
            return
        self.items.append((obj, snap_fn, snap_fn(obj), case, what))

    def verify(self, ctx, monitor='oracle:retained'):
        for obj, fn, snap, case, what in self.items:
            ctx.mon(monitor)
            now = fn(obj)
            if now != snap:
                ctx.violation('retained-result-changed', dict(case, fn=what, retained=True), {'at_return': snap, 'read_again_later': now})
        del self.items[:]


def assert_repo_tree():
    "The code under observation must be /repo's working tree."
    import emmet
    f = os.path.realpath(emmet.__file__)
    if not f.startswith(os.path.realpath(REPO) + os.sep):
        raise OracleError('emmet imported from %s, expected under %s' % (f, REPO))
    return f


class CpuBudgetExceeded(BaseException):
    """One monitored call of the library has burnt more CPU time than CPU_BUDGET seconds.  Every call the checks make works on an input of
    at most a few kilobytes and normally takes well under a millisecond to a few hundred; the budget is five orders of magnitude above the
    median.  CPU time of the process (time.process_time) is the measure, not the wall clock: it counts work done - also inside the
    regular-expression engine, where no Python line event fires - and does not grow when the machine is busy with other processes."""


class ShardCutShort(BaseException):
    "raised into the property module to end a shard early; the worker writes out what was observed so far"


_OVER = [0]
CPU_BUDGET = float(os.environ.get('VERIF_CPU_BUDGET', '40'))
_ACTIVE = []        # process_time() at the entry of the monitored calls in progress (nested: a call made from inside a callback)


def _on_sigprof(signum, frame):
    if _ACTIVE and time.process_time() - _ACTIVE[-1] > CPU_BUDGET:
        since = _ACTIVE[-1]
        _ACTIVE[-1] = time.process_time() + 1e9        # raise once per call
        raise CpuBudgetExceeded('more than %.0f CPU-seconds in one call (%.1f so far)' % (CPU_BUDGET, time.process_time() - since))


def install_cpu_guard():
    "a profiling timer (ITIMER_PROF counts CPU time of the process) that looks at the call in progress every two CPU-seconds"
    import signal
    signal.signal(signal.SIGPROF, _on_sigprof)
    signal.setitimer(signal.ITIMER_PROF, 2.0, 2.0)


def call(fn, *a, **kw):
    """Total wrapper: returns ('ok', value) or ('exc', exception).  BaseException other
    than KeyboardInterrupt/SystemExit is an observation too (injected faults, an exceeded CPU budget)."""
    if _OVER[0] >= 3:
        # three calls of this shard have already burnt their whole CPU budget (each is reported): the rest of the shard would only repeat it
        raise ShardCutShort('%d monitored calls exceeded the CPU budget of %.0f s' % (_OVER[0], CPU_BUDGET))
    _ACTIVE.append(time.process_time())
    try:
        return ('ok', fn(*a, **kw))
    except (KeyboardInterrupt, SystemExit, ShardCutShort):
        raise
    except BaseException as e:       # noqa: an exception is an observation
        if isinstance(e, CpuBudgetExceeded):
            _OVER[0] += 1
        return ('exc', e)
    finally:
        _ACTIVE.pop()


def exc_site(e):
    "(type name, repo-relative file, function) of the innermost frame inside emmet."
    tb = traceback.extract_tb(e.__traceback__)
    site = None
    for fr in tb:
        if '/emmet/' in fr.filename:
            site = fr
    if site is None and tb:
        site = tb[-1]
    if site is None:
        return (type(e).__name__, '?', '?')
    fn = site.filename
    i = fn.rfind('/emmet/')
    return (type(e).__name__, fn[i + 1:] if i >= 0 else fn, site.name)
