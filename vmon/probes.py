"""Source-free probes on the real functions: CPython 3.12 sys.monitoring local events
placed on the code objects of the anchored functions.  Probes never decide a verdict;
they (a) count reach, (b) expose hooked state (frame locals) to invariant handlers whose
failures are reported through the property's ctx like any other observation, and
(c) provide the logical step counter and the source-free failpoints.

Nothing in /repo is edited or monkey-patched, so references bound with
`from m import f` cannot bypass a probe: it sits on the code object itself."""
import importlib
import os
import signal
import sys
from collections import Counter

from . import core as _core

M = sys.monitoring
E = M.events
TOOL_PROBE = 3
TOOL_STEPS = 4
TOOL_FAULT = 5

ENABLED = os.environ.get('EMMET_VERIF_PROBES', '1') != '0'


def resolve(path):
    """'emmet.abbreviation.convert:convert_statement' or 'emmet.output_stream:OutputStream._push'"""
    modname, qual = path.split(':')
    try:
        obj = importlib.import_module(modname)
        for part in qual.split('.'):
            obj = getattr(obj, part)
        return obj.__code__
    except Exception:          # noqa: renamed/removed target => probe unavailable
        return None


QUIET = [False]         # set by vmon/hostile.py while a hostile step runs: the handlers below shadow the state of MONITORED calls only
CALLBACK_ERRORS = Counter()     # harness faults inside probe callbacks: the shard is reported as failed (inconclusive)


class Probes:
    def __init__(self):
        self.counts = Counter()
        self.unavailable = []
        self._start = {}
        self._ret = {}
        self._names = {}
        self.installed = False

    def add(self, path, on_start=None, on_return=None):
        code = resolve(path)
        name = path.split(':')[1]
        if code is None:
            self.unavailable.append(path)
            return self
        self._names[code] = name
        self._start[code] = on_start
        if on_return is not None:
            self._ret[code] = on_return
        return self

    def install(self):
        if not ENABLED or self.installed:
            return self
        M.use_tool_id(TOOL_PROBE, 'vmon-probes')
        M.register_callback(TOOL_PROBE, E.PY_START, self._on_start)
        M.register_callback(TOOL_PROBE, E.PY_RETURN, self._on_return)
        for code in self._names:
            ev = E.PY_START
            if code in self._ret:
                ev |= E.PY_RETURN
            M.set_local_events(TOOL_PROBE, code, ev)
        self.installed = True
        return self

    def uninstall(self):
        if self.installed:
            for code in self._names:
                M.set_local_events(TOOL_PROBE, code, 0)
            M.register_callback(TOOL_PROBE, E.PY_START, None)
            M.register_callback(TOOL_PROBE, E.PY_RETURN, None)
            M.free_tool_id(TOOL_PROBE)
            self.installed = False

    def _on_start(self, code, offset):
        name = self._names.get(code)
        if name is None:
            return M.DISABLE
        self.counts[name] += 1
        h = self._start.get(code)
        if h is not None and not QUIET[0]:
            try:
                h(sys._getframe(1))
            except Exception as e:      # a failing probe must never raise into the code it watches
                CALLBACK_ERRORS['%s: %s: %s' % (name, type(e).__name__, str(e)[:80])] += 1

    def _on_return(self, code, offset, retval):
        h = self._ret.get(code)
        if h is not None and not QUIET[0]:
            try:
                h(sys._getframe(1), retval)
            except Exception as e:
                CALLBACK_ERRORS['%s: %s: %s' % (self._names.get(code), type(e).__name__, str(e)[:80])] += 1

    def reach(self):
        d = {n: self.counts.get(n, 0) for n in self._names.values()}
        for p in self.unavailable:
            d[p.split(':')[1] + ' (unavailable)'] = 0
        return d


# ---------------------------------------------------------------------------------
# logical step budget (termination clauses are decided on steps, never on wall clock)
class StepBudgetExceeded(BaseException):
    pass


class WallClock(BaseException):
    pass


def count_steps(fn, budget, prefix=None):
    """Runs fn() counting LINE events in code under `prefix` (default: the emmet package).
    Returns ('ok', value, steps) | ('exc', exception, steps) | ('budget', None, steps)."""
    if prefix is None:
        import emmet
        prefix = os.path.dirname(os.path.realpath(emmet.__file__))
    n = [0]

    def on_line(code, line):
        if not code.co_filename.startswith(prefix):
            return M.DISABLE
        n[0] += 1
        if n[0] > budget:
            raise StepBudgetExceeded()

    M.use_tool_id(TOOL_STEPS, 'vmon-steps')
    M.register_callback(TOOL_STEPS, E.LINE, on_line)
    M.set_events(TOOL_STEPS, E.LINE)
    try:
        try:
            return ('ok', fn(), n[0])
        except StepBudgetExceeded:
            return ('budget', None, n[0])
        except (KeyboardInterrupt, SystemExit, _core.ShardCutShort):
            raise
        except BaseException as e:      # noqa
            return ('exc', e, n[0])
    finally:
        M.set_events(TOOL_STEPS, 0)
        M.register_callback(TOOL_STEPS, E.LINE, None)
        M.free_tool_id(TOOL_STEPS)
        M.restart_events()


def with_watchdog(fn, seconds=10):
    """Runs fn() under a wall-clock watchdog.  Returns ('ok', v) | ('exc', e) | ('slow', None).
    'slow' is not a verdict: the caller re-runs the case under count_steps()."""
    def handler(signum, frame):
        raise WallClock()
    old = signal.signal(signal.SIGALRM, handler)
    signal.setitimer(signal.ITIMER_REAL, seconds)
    try:
        try:
            v = fn()
            return ('ok', v)
        except WallClock:
            return ('slow', None)
        except (KeyboardInterrupt, SystemExit, _core.ShardCutShort):
            raise
        except BaseException as e:      # noqa
            return ('exc', e)
    finally:
        signal.setitimer(signal.ITIMER_REAL, 0)
        signal.signal(signal.SIGALRM, old)


STEP_BUDGET = 20_000_000


def bounded(fn, ctx, label):
    """Termination monitor: wall-clock watchdog first (cheap), logical-step budget as the
    deciding re-run.  Returns ('ok', v) | ('exc', e) | ('nonterm', steps) | ('inconclusive', None)."""
    from . import core
    r = with_watchdog(lambda: core.call(fn), 10)
    if r[0] == 'ok':
        r = r[1]            # ('ok', v) | ('exc', e) from core.call (which puts the call under the CPU budget as well)
        if r[0] == 'exc' and isinstance(r[1], core.CpuBudgetExceeded):
            return ('nonterm', str(r[1]))
        return r
    if r[0] != 'slow':
        return r
    ctx.mon('termination:watchdog-tripped')
    r2 = with_watchdog(lambda: count_steps(lambda: core.call(fn), STEP_BUDGET), 900)
    if r2[0] == 'slow':
        return ('inconclusive', None)
    if r2[0] == 'exc':
        return ('exc', r2[1])
    kind, val, steps = r2[1]
    ctx.mon('termination:step-counted-rerun')
    if kind == 'budget':
        return ('nonterm', steps)
    if kind == 'ok':
        if val[0] == 'exc' and isinstance(val[1], core.CpuBudgetExceeded):
            # no budget of Python lines was exceeded, yet the call burnt its CPU budget: the time goes where no line event fires (the
            # regular-expression engine, a C-level loop)
            return ('nonterm', '%s after %d line events' % (val[1], steps))
        return val
    return (kind, val)


# ---------------------------------------------------------------------------------
# source-free failpoints: raise at the k-th entry of any emmet function
class InjectedFault(BaseException):
    pass


class FaultInjector:
    def __init__(self):
        import emmet
        self.prefix = os.path.dirname(os.path.realpath(emmet.__file__))
        self.n = 0
        self.k = None
        self.where = None
        self.active = False

    def _on_start(self, code, offset):
        if not code.co_filename.startswith(self.prefix):
            return M.DISABLE
        if not self.active:
            return
        self.n += 1
        if self.k is not None and self.n == self.k:
            self.where = '%s:%s' % (code.co_filename[len(self.prefix) + 1:], code.co_name)
            raise InjectedFault(self.where)

    def install(self):
        M.use_tool_id(TOOL_FAULT, 'vmon-faults')
        M.register_callback(TOOL_FAULT, E.PY_START, self._on_start)
        M.set_events(TOOL_FAULT, E.PY_START)

    def uninstall(self):
        M.set_events(TOOL_FAULT, 0)
        M.register_callback(TOOL_FAULT, E.PY_START, None)
        M.free_tool_id(TOOL_FAULT)

    def count(self, fn):
        "number of emmet function entries during fn() (fn may raise)"
        self.n = 0
        self.k = None
        self.active = True
        try:
            try:
                fn()
            except BaseException:   # noqa
                pass
        finally:
            self.active = False
        return self.n

    def run(self, fn, k):
        "runs fn() raising InjectedFault at the k-th function entry; returns ('ok',v)|('exc',e)"
        self.n = 0
        self.k = k
        self.where = None
        self.active = True
        try:
            try:
                return ('ok', fn())
            except (KeyboardInterrupt, SystemExit, _core.ShardCutShort):
                raise
            except BaseException as e:      # noqa
                return ('exc', e)
        finally:
            self.active = False
            self.k = None
