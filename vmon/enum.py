"""Partitioned exhaustive enumeration of strings over an alphabet."""
import itertools


def count_strings(alpha, maxlen, minlen=0):
    return sum(len(alpha) ** L for L in range(minlen, maxlen + 1))


def strings(alpha, maxlen, part=0, nparts=1, minlen=0, stride=1, offset=0):
    """All strings over `alpha` (a sequence of symbols, each a str) with minlen <= number
    of symbols <= maxlen that belong to partition `part` of `nparts`.  Strings shorter than
    2 symbols belong to partition 0; longer ones are assigned by their 2-symbol prefix.
    With stride > 1 only every stride-th string (counted per partition, from `offset`) is
    produced: a sampled, non-exhaustive sweep."""
    k = len(alpha)
    n = 0
    for L in range(minlen, maxlen + 1):
        if L < 2:
            if part != 0:
                continue
            for tup in itertools.product(alpha, repeat=L):
                if stride == 1 or n % stride == offset:
                    yield ''.join(tup)
                n += 1
            continue
        pi = 0
        for a in alpha:
            for b in alpha:
                mine = (pi % nparts) == part
                pi += 1
                if not mine:
                    continue
                pre = a + b
                if L == 2:
                    if stride == 1 or n % stride == offset:
                        yield pre
                    n += 1
                    continue
                for tup in itertools.product(alpha, repeat=L - 2):
                    if stride == 1 or n % stride == offset:
                        yield pre + ''.join(tup)
                    n += 1


def chunks(seq, nparts):
    seq = list(seq)
    return [seq[i::nparts] for i in range(nparts)]
