"""Token stretching: repeats the character at one position k times.  Length thresholds
(fixed-size buffers, slices, unpacking, recursion limits of a fast path) lie far from the small
inputs an exhaustive enumeration reaches; stretching a valid input reaches them cheaply."""


def stretch(s, rng, max_k=14):
    if not s:
        return s
    i = rng.randrange(len(s))
    k = rng.choice([2, 3, 5, 7, 8, 9, max_k, 2 * max_k])
    return s[:i] + s[i] * k + s[i + 1:]


def stretch_class(s, rng, classes=('0123456789', 'abcdef', '$', '^', '.', '-', ' ', '(', '[', '{'), max_k=14):
    "extends a run of one character class (digits, hex letters, ...) found in s"
    idx = [i for i, c in enumerate(s) if any(c in cl for cl in classes)]
    if not idx:
        return stretch(s, rng, max_k)
    i = rng.choice(idx)
    cl = next(cl for cl in classes if s[i] in cl)
    k = rng.choice([2, 4, 6, 7, 8, 12, max_k, 3 * max_k])
    return s[:i] + ''.join(rng.choice(cl) for _ in range(k)) + s[i:]
