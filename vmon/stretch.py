"""Token stretching: repeats the character at one position k times.  Length thresholds
(fixed-size buffers, slices, unpacking, recursion limits of a fast path) lie far from the small
inputs an exhaustive enumeration reaches; stretching a valid input reaches them cheaply."""


def stretch(s, rng, max_k=14):
    if not s:
        return s
    i = rng.randrange(len(s))
    k = rng.choice([2, 3, 5, 7, 8, 9, max_k, 2 * max_k])
    return s[:i] + s[i] * k + s[i + 1:]


def stretch_class(s, rng, classes=('0123456789', 'abcdef', '$', '^', '.', '-', ' ', '(', '[', '{'), max_k=14):
    "extends a run of one character class (digits, hex letters, ...) found in s"
    idx = [i for i, c in enumerate(s) if any(c in cl for cl in classes)]
    if not idx:
        return stretch(s, rng, max_k)
    i = rng.choice(idx)
    cl = next(cl for cl in classes if s[i] in cl)
    k = rng.choice([2, 4, 6, 7, 8, 12, max_k, 3 * max_k])
    return s[:i] + ''.join(rng.choice(cl) for _ in range(k)) + s[i:]


EXTREME_LENGTHS = [60, 300, 308, 309, 310, 400, 1000, 4299, 4300, 4301, 5000, 12000]


def stretch_extreme(s, rng, classes=('0123456789', '$', '^', '.', '-', ' ', '@', '#', '!', '+', ':', 'abcdef'), lengths=EXTREME_LENGTHS):
    """Run lengths at and beyond the limits of the interpreter itself: floats overflow to inf at 309 digits,
    CPython refuses int <-> str conversion beyond 4300 digits, zfill / slicing / regex costs grow with the run.
    Returns (stretched string, class stretched, run length)."""
    idx = [i for i, c in enumerate(s) if any(c in cl for cl in classes)]
    if not idx:
        return s, None, 0
    i = rng.choice(idx)
    cl = next(cl for cl in classes if s[i] in cl)
    k = rng.choice(lengths)
    run = (rng.choice(cl.replace('0', '') or cl) + ''.join(rng.choice(cl) for _ in range(k - 1))) if rng.random() < 0.5 else s[i] * k
    return s[:i] + run + s[i:], cl, k


# characters on the borders of the character classes the scanners use (str.isdecimal / isdigit / isnumeric / isalpha / isspace disagree on them)
CLASS_BORDER_CHARS = ['\u00b2', '\u2460', '\u0663', '\uff13', '\u00bd', '\u2177', '\U0001d7d1', '\u0967', '\u00e9', '\u0416', '\u00aa', '\u01c5', '\u00df', '\u0130',
                      '\u00a0', '\u2028', '\u3000', '\x85', '\x0b', '\x0c', '\x1c', '\u200b', '\ufeff', '\u0301', '\u4e2d', '\U0001f600', '\x00', '\x7f',
                      # sequences that change under Unicode normalisation or case mapping (a scanner must work on the string it was given)
                      'e\u0301', 'A\u030a', '\u1100\u1161', '\u0958', '\u212b', '\u2126', '\ufb01', '\u1e9e', '\u0149', '\u03c2']
MARKUP_NUMBER_SLOTS = ['a*%s', 'a*1%s', 'a.c$@%s*2', 'a.c$@-%s*2', 'p{${%s}}', 'p{${%s:x}}', 'a[b=${%s}]', 'a%s', '.%s', '#%s', '[%s=%s]', '{%s}', 'a>%s', 'a[%s]', 'a["%s"]', '%s',
                       'lorem%s', 'a{$%s}', 'a$%s*2', '(a)*%s', 'a/%s', 'a^%s', 'a.%s$', 'a:%s']
CSS_NUMBER_SLOTS = ['m%s', 'm1%s', 'm%s1', '#%s', 'c#%s', 'c#f.%s', '1-%spx', 'p${%s}', 'p${%s:x}', 'p:%s', '@%s', '$%s', 'm-%s', 'm.%s', 'm1.%s', '%s', 'p"%s"', 'p(%s)', 'p!%s', 'm1%s2',
                    'p%s-%s', 'a,%s', 'p+%s', 'm1e%s', '--%s', 'm%%%s']


def class_border_inputs(slots):
    for u in CLASS_BORDER_CHARS:
        for t in slots:
            yield t.replace('%s', u).replace('%%', '%')
