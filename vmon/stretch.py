"""Token stretching: repeats the character at one position k times.  Length thresholds
(fixed-size buffers, slices, unpacking, recursion limits of a fast path) lie far from the small
inputs an exhaustive enumeration reaches; stretching a valid input reaches them cheaply."""


def stretch(s, rng, max_k=14):
    if not s:
        return s
    i = rng.randrange(len(s))
    k = rng.choice([2, 3, 5, 7, 8, 9, max_k, 2 * max_k])
    return s[:i] + s[i] * k + s[i + 1:]


def stretch_class(s, rng, classes=('0123456789', 'abcdef', '$', '^', '.', '-', ' ', '(', '[', '{'), max_k=14):
    "extends a run of one character class (digits, hex letters, ...) found in s"
    idx = [i for i, c in enumerate(s) if any(c in cl for cl in classes)]
    if not idx:
        return stretch(s, rng, max_k)
    i = rng.choice(idx)
    cl = next(cl for cl in classes if s[i] in cl)
    k = rng.choice([2, 4, 6, 7, 8, 12, max_k, 3 * max_k])
    return s[:i] + ''.join(rng.choice(cl) for _ in range(k)) + s[i:]


EXTREME_LENGTHS = [60, 300, 308, 309, 310, 400, 1000, 4299, 4300, 4301, 5000, 12000]


def stretch_extreme(s, rng, classes=('0123456789', '$', '^', '.', '-', ' ', '@', '#', '!', '+', ':', 'abcdef'), lengths=EXTREME_LENGTHS):
    """Run lengths at and beyond the limits of the interpreter itself: floats overflow to inf at 309 digits,
    CPython refuses int <-> str conversion beyond 4300 digits, zfill / slicing / regex costs grow with the run.
    Returns (stretched string, class stretched, run length)."""
    idx = [i for i, c in enumerate(s) if any(c in cl for cl in classes)]
    if not idx:
        return s, None, 0
    i = rng.choice(idx)
    cl = next(cl for cl in classes if s[i] in cl)
    k = rng.choice(lengths)
    run = (rng.choice(cl.replace('0', '') or cl) + ''.join(rng.choice(cl) for _ in range(k - 1))) if rng.random() < 0.5 else s[i] * k
    return s[:i] + run + s[i:], cl, k


# characters on the borders of the character classes the scanners use (str.isdecimal / isdigit / isnumeric / isalpha / isspace disagree on them)
CLASS_BORDER_CHARS = ['\u00b2', '\u2460', '\u0663', '\uff13', '\u00bd', '\u2177', '\U0001d7d1', '\u0967', '\u00e9', '\u0416', '\u00aa', '\u01c5', '\u00df', '\u0130',
                      '\u00a0', '\u2028', '\u3000', '\x85', '\x0b', '\x0c', '\x1c', '\u200b', '\ufeff', '\u0301', '\u4e2d', '\U0001f600', '\x00', '\x7f',
                      # sequences that change under Unicode normalisation or case mapping (a scanner must work on the string it was given)
                      'e\u0301', 'A\u030a', '\u1100\u1161', '\u0958', '\u212b', '\u2126', '\ufb01', '\u1e9e', '\u0149', '\u03c2']
MARKUP_NUMBER_SLOTS = ['a*%s', 'a*1%s', 'a.c$@%s*2', 'a.c$@-%s*2', 'p{${%s}}', 'p{${%s:x}}', 'a[b=${%s}]', 'a%s', '.%s', '#%s', '[%s=%s]', '{%s}', 'a>%s', 'a[%s]', 'a["%s"]', '%s',
                       'lorem%s', 'a{$%s}', 'a$%s*2', '(a)*%s', 'a/%s', 'a^%s', 'a.%s$', 'a:%s']
CSS_NUMBER_SLOTS = ['m%s', 'm1%s', 'm%s1', '#%s', 'c#%s', 'c#f.%s', '1-%spx', 'p${%s}', 'p${%s:x}', 'p:%s', '@%s', '$%s', 'm-%s', 'm.%s', 'm1.%s', '%s', 'p"%s"', 'p(%s)', 'p!%s', 'm1%s2',
                    'p%s-%s', 'a,%s', 'p+%s', 'm1e%s', '--%s', 'm%%%s']


def class_border_inputs(slots):
    for u in CLASS_BORDER_CHARS:
        for t in slots:
            yield t.replace('%s', u).replace('%%', '%')


# ---- near misses: a long run of one kind of piece followed by something that is NOT what a pattern expects next.  A regular expression with a
# nested quantifier (`(?:[\w-]+:?)+[\s>]`, `(?:-{0,2}[a-z]+)+:`) matches or rejects ordinary text at once, and backtracks exponentially on
# 25+ characters of almost-matching text: nothing shorter shows it, and the answers stay right.  (Termination is decided on CPU time: core.call.)
RUN_UNITS = ['a', 'Ab', 'a-', 'ab-cd-', '-', '- ', 'a ', 'ab cd ', '_', 'a_b', '0', '1 ', 'a:', '--a', '\u00e9', ' ', 'a1-', 'word-', '-webkit-a-', 'x ', '* ', '+ ', 'ab.', 'a,']
RUN_ENDS = ['/', '.', ':', '@', '\\', '', '!', ';', '(', ')', '#', '%', 'x', '>', '/>', ':x', '.5', '?', '=', '&', ',', '~', '|']
RUN_LENGTHS = (26, 30, 34, 44, 64)


def near_miss(rng, units=RUN_UNITS, ends=RUN_ENDS, lengths=RUN_LENGTHS):
    unit = rng.choice(units)
    k = rng.choice(lengths)
    return (unit * k)[:k].rstrip(' ') + rng.choice(ends)


MARKUP_RUN_SLOTS = ['p{<%s}', 'p{<%s/>}', 'li{<%s}*2', 'p{%s}', 'a[title="%s"]', 'a[class="%s md:x"]', '.%s', '.%s.md:flex', '#%s', '[%s]', 'x-%s', 'p{${1:%s}}', '{<%s}', '{%s}>b',
                    '%s', 'ul>li{<%s}+li', 'p[%s=1]', 'p{a}+q{<%s>}', 'a[href=%s]', '!%s', 'lorem%s', 'p{<%s ', 'a:%s', 'p/%s']
CSS_RUN_SLOTS = ['%s', 'p%s', 'p:%s', 'c#%s', 'p"%s"', 'p(%s)', '@%s', '$%s', 'p!%s', 'ff:"%s', 'lg(%s)', 'p-%s', 'm1%s', '--%s']
WRAP_RUN_LINES = ['<%s', '<%s/>', '%s', '  <%s', 'http://%s', '%s@x.io', '- %s']
SNIPPET_RUN_VALUES = ['%s', '-webkit-%s: x; %s: y', '%s:${1:a}|b', 'a>%s', '{<%s}', 'p[%s]', '%s: ${1:0}; b: ${2}', '-%s']


def near_miss_inputs(rng, slots, n):
    for _ in range(n):
        yield rng.choice(slots).replace('%s', near_miss(rng))


def must_return(ctx, fn, args, case, cls='near-miss-run'):
    """a near miss only has to come back: the property's own oracle cannot read every such text back (a text that begins with `<`), but no
    statement about a result holds for a call that never returns.  Judged: the call ends within its CPU budget and raises nothing but the
    exceptions in `allowed`."""
    from . import core
    ctx.ev(cls)
    ctx.mon('oracle:near-miss-returns')
    r = core.call(fn, *args)
    if r[0] == 'exc' and not isinstance(r[1], case.get('_allowed', ())):
        c = {k: v for k, v in case.items() if k != '_allowed'}
        ctx.violation('exception', c, {'exc': list(core.exc_site(r[1])), 'msg': str(r[1])[:160]})
        return None
    return r
