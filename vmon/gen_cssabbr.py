"""Workload generator + by-construction oracle for stylesheet value abbreviations (C05) and
a generic valid-abbreviation generator for prefix / mutation workloads."""

# property keys with an exact, unique built-in snippet: key -> (property, unitless?)
PROPS = {
    'p': ('padding', False), 'm': ('margin', False), 'w': ('width', False), 'h': ('height', False),
    't': ('top', False), 'l': ('left', False), 'r': ('right', False), 'b': ('bottom', False),
    'mt': ('margin-top', False), 'ml': ('margin-left', False), 'pl': ('padding-left', False), 'pb': ('padding-bottom', False),
    'fsz': ('font-size', False), 'ti': ('text-indent', False), 'bdw': ('border-width', False), 'bdrs': ('border-radius', False),
    'lh': ('line-height', True), 'z': ('z-index', True), 'op': ('opacity', True), 'fw': ('font-weight', True),
    'fx': ('flex', True), 'fxg': ('flex-grow', True), 'fxsh': ('flex-shrink', True), 'zm': ('zoom', True),
    # names that merely BEGIN with (or contain) a unit-less property name take units
    'fxb': ('flex-basis', False), 'lts': ('letter-spacing', False), 'bdsp': ('border-spacing', False), 'wos': ('word-spacing', False), 'ord': ('order', False),
    'c': ('color', False), 'bd': ('border', False), 'bgc': ('background-color', False), 'bdc': ('border-color', False),
}
# user-defined property snippets (passed as `snippets` with every call): custom properties, vendor prefixes, double dashes
USER_SNIPPETS = {'gut': '--gutter', 'wkb': '-webkit-box-flex', 'xab': 'x-a--b', 'cqy': 'container-query', 'mbk': 'margin-block', 'bcr': '--brand-color-x'}
for _k, _v in USER_SNIPPETS.items():
    PROPS[_k] = (_v, False)
DEFAULT_UNITLESS = ['z-index', 'line-height', 'opacity', 'font-weight', 'zoom', 'flex', 'flex-grow', 'flex-shrink']
DEFAULT_ALIASES = {'e': 'em', 'p': '%', 'x': 'ex', 'r': 'rem'}
EXPLICIT_UNITS = ['px', 'pt', 'em', 'rem', 'vh', 'vw', '%', 'ms', 's', 'deg', 'fr']

# number shapes: (written text without sign, python value, is_float_spelling)
NUM_SHAPES = [('0', 0.0, False), ('1', 1.0, False), ('7', 7.0, False), ('10', 10.0, False), ('100', 100.0, False), ('12345', 12345.0, False),
              ('.5', 0.5, True), ('.25', 0.25, True), ('1.', 1.0, True), ('1.5', 1.5, True), ('1.25', 1.25, True), ('0.0', 0.0, True),
              ('10.125', 10.125, True), ('2.0', 2.0, True), ('3.1416', 3.1416, True), ('.0625', 0.0625, True)]
# digit-run stretching: thresholds of number formatting (exponent notation, precision) lie far from small values
LONG_SHAPES = [('10000000000000000', 1e16, False), ('123456789012', 123456789012.0, False), ('99999999', 99999999.0, False), ('1000000.5', 1000000.5, True),
               ('.0001', 0.0001, True), ('0.1234', 0.1234, True), ('65536.0625', 65536.0625, True)]
UNIT_FORMS = [None, None, 'p', 'e', 'x', 'r', 'px', 'pt', '%', 'vh', 'rem', 'ms']


def fmt_num(v):
    "at most 4 decimals, trailing zeros dropped (independent of emmet's frac())"
    s = '%.4f' % v
    if '.' in s:
        s = s.rstrip('0').rstrip('.')
    if s in ('-0', ''):
        s = '0'
    return s


def num_value(rng, shapes=NUM_SHAPES, units=UNIT_FORMS, allow_neg=True):
    if shapes is NUM_SHAPES and rng.random() < 0.06:
        shapes = LONG_SHAPES
    txt, val, is_float = rng.choice(shapes)
    neg = allow_neg and val != 0 and rng.random() < 0.3
    return {'k': 'num', 'txt': ('-' if neg else '') + txt, 'val': -val if neg else val, 'float': is_float,
            'unit': rng.choice(units)}


def color_value(rng):
    n = rng.choice([1, 2, 3, 3, 6, 6, 6])
    hexd = ''.join(rng.choice('0123456789abcdefABCDEF') for _ in range(n))
    if n == 6 and rng.random() < 0.4:       # channels below 0x10 and short-able colours
        chans = [rng.choice(['00', '01', '0a', '0f', '10', '11', 'ff', 'cc', 'e7', 'b0', '0b']) for _ in range(3)]
        hexd = ''.join(chans)
    alpha = rng.choice([None, None, None, '.1', '.25', '.5', '.75', '.0', '.125'] * 3 + ['.00005', '.0001', '.12345678', '.000001', '.99999999', '.05'])
    return {'k': 'color', 'hex': hexd, 'alpha': alpha}


def color_rgba(hexd, alpha):
    h = hexd.lower()
    if len(h) == 1:
        ch = [h * 2] * 3
    elif len(h) == 2:
        ch = [h] * 3
    elif len(h) == 3:
        ch = [c * 2 for c in h]
    else:
        ch = [h[0:2], h[2:4], h[4:6]]
    a = 1.0 if alpha is None else float('0' + alpha)
    return (int(ch[0], 16), int(ch[1], 16), int(ch[2], 16), a)


def write_values(values, important=False):
    """Spells a value list with the documented delimiter rules: a '-' after a unit-less
    number or a colour separates; otherwise a '-' is a sign and values simply follow each other."""
    s = ''
    prev = None
    for v in values:
        if prev is not None:
            if prev['k'] == 'color' or (prev['k'] == 'num' and prev['unit'] is None):
                s += '-'
            elif v['k'] == 'num' and not v['txt'].startswith('-') and prev['k'] == 'num' and prev['unit'] == '%':
                pass            # `10%20` : percent ends the unit
        if v['k'] == 'num':
            s += v['txt'] + (v['unit'] or '')
        else:
            s += '#' + v['hex'] + (v['alpha'] or '')
        prev = v
    if important:
        s += '!'
    return s


def expected_value(v, prop, opts):
    "Expected printed form of one value; colours are returned as ('color', rgba, shortable)."
    if v['k'] == 'color':
        return ('color', color_rgba(v['hex'], v['alpha']))
    unitless = opts.get('stylesheet.unitless', DEFAULT_UNITLESS)
    aliases = opts.get('stylesheet.unitAliases', DEFAULT_ALIASES)
    if v['unit']:
        unit = aliases.get(v['unit'], v['unit'])
    elif v['val'] == 0 or prop in unitless:
        unit = ''
    else:
        unit = opts.get('stylesheet.floatUnit', 'em') if v['float'] else opts.get('stylesheet.intUnit', 'px')
    return ('text', fmt_num(v['val']) + unit)


def random_abbreviation(rng):
    "A valid stylesheet abbreviation with most features (for prefix / mutation workloads)."
    parts = []
    for _ in range(rng.randint(1, 3)):
        r = rng.random()
        if r < 0.55:
            key = rng.choice(list(PROPS))
            vals = [num_value(rng) if rng.random() < 0.75 else color_value(rng) for _ in range(rng.randint(0, 3))]
            parts.append(key + write_values(vals, rng.random() < 0.2))
        elif r < 0.8:
            parts.append(rng.choice(['d:ib', 'pos:a', 'ov:h', 'fl:l', 'm0-a', 'bd1-s#f.5', 'trf:r', 'bg:n', 'ff:"a b"', 'bgi:url(a.png)',
                                     'trs:all .3s', 'c:rgb(0, 0, 0)', 'lg(t, #fff, #000)', 'p${1:foo}', 'anim', '@kf', '@m', 'cnt:c',
                                     '$var10', '@w20', '--custom', 'p:--x', 'mten', 'foo-bar:baz', 'gtc:repeat(2,1fr)', 'animic']))
        else:
            parts.append(rng.choice(list(PROPS)))
    return '+'.join(parts)
