"""Generator of well-formed HTML/XML documents that records, while writing, where every
element, tag and attribute lies (ground truth for C09, C16 mutations and C17)."""

VOID = ['img', 'br', 'input', 'hr', 'meta', 'link', 'col', 'source', 'wbr']
NAMES = ['div', 'p', 'span', 'ul', 'li', 'x-foo', 'svg:g', 'a', 'section', 'h1', 'my.tag', 'b']


class Writer:
    def __init__(self):
        self.parts = []
        self.pos = 0

    def add(self, s):
        a = self.pos
        self.parts.append(s)
        self.pos += len(s)
        return (a, self.pos)

    def text(self):
        return ''.join(self.parts)


def equals(rng):
    "the `=` between an attribute's name and its value may have white space on either side"
    return '=' if rng.random() < 0.85 else rng.choice([' = ', ' =', '= ', '\n=\n', '\t=', '=  '])


BLANK_IN_END_TAG = {'p': 0.0}       # switched on by C09 for its D2 documents only (open finding: `</div >` is not seen as a tag; the repository's own suite pins that)


def end_tag(rng, name, xml, p_alt=0.08):
    """`</name>`; white space may stand before the `>` (XML: ETag ::= '</' Name S? '>', HTML likewise), and in HTML - not in XML - the name of the
    end tag need not repeat the letter case of the start tag"""
    r = rng.random()
    if not xml and r < p_alt:
        alt = rng.choice([name.upper(), name.lower(), name.capitalize()])
        name = alt
    return '</' + name + (rng.choice([' ', '\n', '\t ', '  ']) if rng.random() < BLANK_IN_END_TAG['p'] else '') + '>'


def gen_attrs(rng, w, rich=True):
    attrs = []
    for _ in range(rng.choice([0, 0, 1, 1, 2, 3] * 5 + [6, 9, 14])):
        w.add(rng.choice([' ', ' ', '  ', '\n', '\t']))
        kind = rng.choice(['dq', 'dq', 'sq', 'unq', 'bool', 'expr', 'ng', 'class', 'class', 'angle'])
        name = rng.choice(['id', 'data-x', 'href', 'title', ':bind', 'v-on:click', 'aria-label', 'xml:lang', '_x', 'a.b', 'data-type', ':type', 'xtype', 'src'])
        if kind == 'ng':
            name = rng.choice(['*ngIf', '#ref', '[prop]', '(click)', '{...p}', '[(ngModel)]', '*', '@click', '@submit.prevent', '@'])
            kind = rng.choice(['dq', 'bool', 'bool'])
            if name == '{...p}':
                kind = 'bool'
        if kind == 'class':
            name = 'class' if rng.random() < 0.85 else rng.choice(['CLASS', 'Class'])        # (attribute names of an HTML document are case-insensitive)
        if kind == 'angle':
            # template expressions and generics: a <...> pair is one attribute name or value, also when glued to the tag's own >
            if rng.random() < 0.5:
                name = rng.choice(['<?= $sel ?>', '<%= x %>', '<Row>', '<?php echo "a" ?>', '<?php echo $this->cls(); ?>', '<%= a > b %>', '<?= $a->b ?>', '<?php body_class(); ?>'])       # (a template section may contain `>`)
                kind = 'bool'
            else:
                kind = 'anglevalue'
        ns, ne = w.add(name)
        val = None
        vs = ve = None
        inner = None        # (start, end) of the value without its quotes / braces
        if kind != 'bool':
            w.add(equals(rng))
            if kind == 'class':
                q = rng.choice(['"', '"', "'", '', '{'])
                body = rng.choice(['a', 'a b', 'foo  bar', ' a b ', 'a\tb\nc', '', 'x-1 y_2 z', 'a  ', 'foo\u3000bar baz', 'a\x0bb c', 'f\x0cg h', 'p\u2028q', 'x\x85y z', 'a\xa0b', 'é ü\u2003ö', 'a\rb', ' '.join('c%d' % k for k in range(rng.randint(5, 14)))]) if q else rng.choice(['a', 'foo-bar', 'item', 'a-very-long-class-name'])
                val = q + body + ('}' if q == '{' else q)
            elif kind == 'dq':
                val = '"%s"' % rng.choice(['a > b', '', 'x/y', '</div>', '<b>', "it's", 'a=b c', ' ', '/>', 'é ü', '{x}', '-->', '/a.js?type=min', 'text/x-template', 'type=text/html',
                                            'c:\\', 'a\\', '\\\\', 'C:\\docs\\'])       # HTML strings have no backslash escapes
            elif kind == 'sq':
                val = "'%s'" % rng.choice(['a>b', '"', '', 'x y', '</p>', '<!--'])
            elif kind == 'anglevalue':
                val = rng.choice(['<%= cls %>', '<?php echo 1 ?>', '<b c>', '<T>', '<?= $o->id ?>', '<%= n > 1 %>'])
            elif kind == 'unq':
                val = rng.choice(['abc', 'a-b', 'x:y', '1', 'a.b', '#x', 'a=b', '{{x}}', 'a&b', 'foo[0]', '/foo/bar', 'http://x.com/p', 'a/b', '../a.png', 'x//y', '/x'])      # (a value ending in `/` right before `>` would read as `/>`)
            else:
                val = rng.choice(['{a > b}', '{x ? "<b>" : y}', '{{a:1}}', '{}', '{f("}")}', '{a/b}'])
            vs, ve = w.add(val)
            if val[:1] in ('"', "'"):
                inner = (vs + 1, ve - 1)
            elif val[:1] == '{' and val[-1:] == '}':
                inner = (vs + 1, ve - 1)
            else:
                inner = (vs, ve)
        attrs.append({'name': name, 'ns': ns, 'ne': ne, 'val': val, 'vs': vs, 've': ve, 'inner': inner})
    return attrs


DECOYS = ['\u0130stanbul ', '<!-- \u0130 <i> -->', '<!-- <b> -->', '<![CDATA[ <i></i> ]]>', '<?php echo "<u>"; ?>', 'text ', 'a < b', '\n  ', '<!---->', '<!-- a -- b > -->',
          '<![CDATA[]]>', '<? x="?>" ?>', '<?php echo "?> <br/>"; ?>', '<? a="?><i>" ?>', "<?x '?></p><b>' ?>", '<?php $a = "<?"; ?>', '<![CDATA[ ]] > <q> ]]>', '1 > 0', '&lt;p&gt;', 'x </ y', '<!-- </div> -->', '< div>', '<>']
SPECIAL_BODIES = ['alert("\u0130ptal")', '/* \u0130\u0130 \u1e9e \ufb01 */ a{}', 'x = "\u0130<b>\u0130"', '', 'var a = "<div>"; if (a < b) {}', '</div><p>', '<!-- x -->', 'a{color:red} b>c{}', '<script>', '</scrip>', "'</p>'", '<br>']


def gen_elem(rng, depth, w, recs, parent, xml, max_depth=4, max_children=3):
    kind = rng.choice(['pair', 'pair', 'pair', 'pair', 'void', 'self', 'special', 'tscript'] if max_depth <= 5 else ['pair'] * 9 + ['void', 'self', 'special', 'tscript'])
    if depth >= max_depth and kind in ('pair', 'tscript'):
        kind = rng.choice(['self', 'void', 'pair0'])
    if kind == 'void':
        name = rng.choice(VOID)
        if rng.random() < 0.2:
            name = rng.choice([name.upper(), name.capitalize()])       # HTML tag names are case-insensitive; in XML mode the element is closed explicitly
    elif kind == 'special':
        name = rng.choice(['script', 'style'])
        if not xml and rng.random() < 0.12:
            name = rng.choice([name.upper(), name.capitalize()])       # <SCRIPT LANGUAGE=...> of older pages: the same element in HTML
    elif kind == 'tscript':
        name = 'script'
    else:
        name = rng.choice(NAMES)
        if kind == 'self' and rng.random() < 0.15:
            name = rng.choice(['script', 'style'])        # a self-closed special element has no body to skip
        elif rng.random() < 0.08:
            name = rng.choice([name.upper(), name.capitalize()])
        elif xml and kind in ('pair', 'self') and rng.random() < 0.06:
            name = rng.choice(['Style', 'SCRIPT', 'Script', 'STYLE'])       # XML names are case-sensitive: KML's <Style> is an ordinary element with children
    os_, _ = w.add('<' + name)
    if kind == 'tscript':
        # script with a non-JS type is NOT special: its body is ordinary markup
        w.add(' ')
        # (HTML attribute names match in any letter case: `<script TYPE="text/x-template">` of older pages)
        ns, ne = w.add('type' if xml or rng.random() < 0.75 else rng.choice(['TYPE', 'Type']))
        w.add(equals(rng))
        val = rng.choice(['"text/x-template"', "'text/html'", 'text/ng-template'.replace('/', '-')])
        vs, ve = w.add(val)
        attrs = [{'name': w.text()[ns:ne], 'ns': ns, 'ne': ne, 'val': val, 'vs': vs, 've': ve,
                  'inner': (vs + 1, ve - 1) if val[0] in '"\'' else (vs, ve)}]
    elif kind == 'special' and name == 'script' and rng.random() < 0.5:
        w.add(' ')
        ns, ne = w.add('type')
        w.add(equals(rng))
        val = rng.choice(['"text/JavaScript"', "'Module'", '" text/javascript "', '"text/javascript"', "'typescript'", 'javascript', '""', '"module"', 'module', '"application/javascript"', "'application/ld+json'", '"importmap"'])     # (module scripts, JSON blocks: no markup inside either)
        vs, ve = w.add(val)
        attrs = [{'name': 'type', 'ns': ns, 'ne': ne, 'val': val, 'vs': vs, 've': ve,
                  'inner': (vs + 1, ve - 1) if val[0] in '"\'' else (vs, ve)}]
    elif kind == 'special':
        attrs = gen_attrs(rng, w) if rng.random() < 0.5 else []
        if name == 'script' and rng.random() < 0.35:
            # attributes that only LOOK like a type attribute: the element stays special
            w.add(' ')
            ns, ne = w.add(rng.choice(['data-type', ':type', 'src', 'xtype', 'content-type']))
            w.add(equals(rng))
            val = rng.choice(['"lazy"', '"/app.js?type=min"', '"text/x-template"', "'type=text/html'", 'text/html'.replace('/', '-')])
            vs, ve = w.add(val)
            attrs = list(attrs) + [{'name': w.text()[ns:ne], 'ns': ns, 'ne': ne, 'val': val, 'vs': vs, 've': ve,
                                    'inner': (vs + 1, ve - 1) if val[0] in '"\'' else (vs, ve)}]
        if rng.random() < 0.3:
            # the element's own closing tag, spelled inside its opening tag: the body starts after the tag, not before
            w.add(' ')
            ns, ne = w.add(rng.choice(['title', 'data-x']))
            w.add(equals(rng))
            q = rng.choice('"\'')
            val = q + rng.choice(['</%s>', 'a</%s>b', '</%s', '<%s></%s>'.replace('%s', '%s', 1)]).replace('%s', name) + q
            vs, ve = w.add(val)
            attrs = list(attrs) + [{'name': w.text()[ns:ne], 'ns': ns, 'ne': ne, 'val': val, 'vs': vs, 've': ve, 'inner': (vs + 1, ve - 1)}]
    else:
        attrs = gen_attrs(rng, w)
    w.add(rng.choice(['', '', ' ', '\n']))
    selfclosed = False
    if kind == 'self':
        w.add('/>')
        selfclosed = True
    elif kind == 'void':
        if xml:
            if rng.random() < 0.6:
                w.add('/>')
                selfclosed = True
            else:
                w.add('>')          # paired void element in XML mode: closed below
        elif rng.random() < 0.5:
            w.add('/>')
            selfclosed = True
        else:
            w.add('>')
    else:
        w.add('>')
    oe = w.pos
    rec = {'name': name, 'kind': kind, 'open': (os_, oe), 'close': None, 'attrs': attrs, 'children': [],
           'parent': parent, 'selfclosed': selfclosed, 'depth': depth}
    recs.append(rec)
    if parent is not None:
        parent['children'].append(rec)
    if selfclosed:
        return rec
    if kind == 'void':
        if xml:
            rec['close'] = w.add(end_tag(rng, name, xml))
        return rec
    if kind == 'special':
        w.add(rng.choice(SPECIAL_BODIES))
    elif kind != 'pair0':
        for _ in range(rng.randint(0, max_children)):
            if rng.random() < 0.3:
                w.add(rng.choice(DECOYS))
            gen_elem(rng, depth + 1, w, recs, rec, xml, max_depth, max_children)
        if rng.random() < 0.5:
            w.add(rng.choice(['', 'text', '\n', 'a < b', '<!-- c -->']))
    rec['close'] = w.add(end_tag(rng, name, xml, 0.3 if kind == 'special' else 0.08))
    return rec


def gen_doc(rng, xml=False, max_depth=4, max_children=3, max_top=2):
    w = Writer()
    recs = []
    w.add(rng.choice(['', '', '<!DOCTYPE html>\n', '<?xml version="1.0"?>', '\n', 'text ']))
    for _ in range(rng.randint(1, max_top)):
        gen_elem(rng, 0, w, recs, None, xml, max_depth, max_children)
        w.add(rng.choice(['', '\n', ' ']))
    src = w.text()
    for r in recs:
        r['start'] = r['open'][0]
        r['end'] = (r['close'] or r['open'])[1]
    self_check(src, recs)
    return src, recs


def self_check(src, recs):
    "every recorded range must slice to the text it claims (generator bookkeeping is trusted only after this)"
    for r in recs:
        o = src[r['open'][0]:r['open'][1]]
        assert o.startswith('<' + r['name']) and o.endswith('>'), (o, r['name'])
        if r['close']:
            c = src[r['close'][0]:r['close'][1]]
            assert c[:2] == '</' and c[-1] == '>' and c[2:-1].strip().lower() == r['name'].lower() and c[2:-1].rstrip() == c[2:-1].strip(), (c, r['name'])
        for a in r['attrs']:
            assert src[a['ns']:a['ne']] == a['name']
            if a['val'] is not None:
                assert src[a['vs']:a['ve']] == a['val']


def class_tokens(src, a):
    """ground truth for C17: ranges of the tokens inside the unquoted class value.  A class attribute is a set of space-separated tokens, and
    "space" is HTML's ASCII white space: TAB, LF, FF, CR, SPACE (a no-break space is an ordinary character of a class name)"""
    s, e = a['inner']
    toks = []
    i = s
    while i < e:
        while i < e and src[i] in ' \t\n\r\x0c':
            i += 1
        j = i
        while j < e and src[j] not in ' \t\n\r\x0c':
            j += 1
        if j > i:
            toks.append((i, j))
        i = j
    return toks


def to_json(recs):
    "compact, JSON-able ground truth (parents by index) so that a violation can be replayed"
    idx = {id(r): i for i, r in enumerate(recs)}
    out = []
    for r in recs:
        out.append({'name': r['name'], 'kind': r['kind'], 'open': list(r['open']), 'close': list(r['close']) if r['close'] else None,
                    'attrs': [dict(a, inner=list(a['inner']) if a['inner'] else None) for a in r['attrs']],
                    'parent': idx[id(r['parent'])] if r['parent'] is not None else None, 'selfclosed': r['selfclosed'], 'depth': r['depth']})
    return out


def from_json(lst):
    recs = []
    for d in lst:
        r = dict(d)
        r['open'] = tuple(d['open'])
        r['close'] = tuple(d['close']) if d['close'] else None
        r['attrs'] = [dict(a, inner=tuple(a['inner']) if a['inner'] else None) for a in d['attrs']]
        r['children'] = []
        recs.append(r)
    for r in recs:
        r['parent'] = recs[r['parent']] if r['parent'] is not None else None
        if r['parent'] is not None:
            r['parent']['children'].append(r)
        r['start'] = r['open'][0]
        r['end'] = (r['close'] or r['open'])[1]
    return recs
