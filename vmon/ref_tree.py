"""Reference model for C01 (also used by C15): the element tree denoted by > + ^ ( ) *N.

Written from the property statement, deliberately NOT with a context stack like the parser:
every written element gets a *depth* (`>` +1, `+` same, each `^` -1 but not below the depth
at which the enclosing group started); the parent of an element is the latest item one
level up inside the same group scope; `*N` unrolls elements and groups; nameless elements
get the documented implicit name of their parent."""

IMPLICIT = {'ul': 'li', 'ol': 'li', 'table': 'tr', 'tbody': 'tr', 'thead': 'tr', 'tfoot': 'tr', 'tr': 'td',
            'select': 'option', 'optgroup': 'option', 'p': 'span'}
INLINE = {'a', 'abbr', 'acronym', 'applet', 'b', 'basefont', 'bdo', 'big', 'br', 'button', 'cite', 'code', 'del', 'dfn', 'em', 'font', 'i',
          'iframe', 'img', 'input', 'ins', 'kbd', 'label', 'map', 'object', 'q', 's', 'samp', 'select', 'small', 'span', 'strike', 'strong',
          'sub', 'sup', 'textarea', 'tt', 'u', 'var'}


class W:
    "written item: element or group"
    __slots__ = ('name', 'rep', 'void', 'ch', 'group', 'extra')

    def __init__(self, name=None, rep=1, void=False, group=False, extra=None):
        self.name = name
        self.rep = rep
        self.void = void
        self.ch = []
        self.group = group
        self.extra = extra


def skeletons(n_max, depth_max, climbs=(1, 2, 3)):
    """Every grammatical operator skeleton with <= n_max elements and group depth <= depth_max,
    as token lists over 'E', '(', ')', '>', '+', ('^', k).  '>' never follows ')'."""
    def stmts(budget, depth):
        for it, used in item(budget, depth):
            yield it, used
            rem = budget - used
            if rem > 0:
                ops = ['+'] + [('^', k) for k in climbs]
                if it[-1] != ')':
                    ops = ['>'] + ops
                for op in ops:
                    for rest, u2 in stmts(rem, depth):
                        yield it + [op] + rest, used + u2

    def item(budget, depth):
        if budget <= 0:
            return
        yield ['E'], 1
        if depth < depth_max:
            for inner, used in stmts(budget, depth + 1):
                yield ['('] + inner + [')'], used

    for s, _ in stmts(n_max, 0):
        yield s


def build(tokens, elems, group_reps):
    """tokens: skeleton; elems: iterator of W for each 'E' in order; group_reps: iterator of
    repeat counts for each ')' in order.  Returns (top-level written items, stats)."""
    pos = [0]
    stats = {'max_depth': 0, 'clamped_climbs': 0, 'group_depth': 0}

    def stmts(gdepth):
        top = []
        levels = [top]
        d = 0
        last = None
        stats['group_depth'] = max(stats['group_depth'], gdepth)
        while pos[0] < len(tokens):
            t = tokens[pos[0]]
            if t == ')':
                break
            pos[0] += 1
            if t == 'E':
                node = next(elems)
                levels[d].append(node)
                last = node
            elif t == '(':
                node = W(group=True)
                node.ch = stmts(gdepth + 1)
                assert tokens[pos[0]] == ')'
                pos[0] += 1
                node.rep = next(group_reps)
                levels[d].append(node)
                last = node
            elif t == '>':
                del levels[d + 1:]
                levels.append(last.ch)
                d += 1
                stats['max_depth'] = max(stats['max_depth'], d)
            elif t == '+':
                pass
            else:
                k = t[1]
                if d - k < 0:
                    stats['clamped_climbs'] += 1
                d = max(0, d - k)
        return top

    return stmts(0), stats


# built-in aliases of ONE plain element (read from emmet/snippets/html.py by the harness author, checked at import by C01): the written
# name stands for that element - also twice on one ancestor path
ALIAS = {'bq': 'blockquote', 'fig': 'figure', 'figc': 'figcaption', 'cap': 'caption', 'fst': 'fieldset', 'btn': 'button', 'optg': 'optgroup', 'leg': 'legend',
         'sect': 'section', 'art': 'article', 'hdr': 'header', 'ftr': 'footer', 'adr': 'address', 'dlg': 'dialog', 'str': 'strong', 'mn': 'main', 'tem': 'template',
         'fset': 'fieldset', 'det': 'details', 'sum': 'summary', 'out': 'output'}
# aliases whose definition is `name[attributes]` where `name` is a snippet AGAIN (form:post -> form[method=post] -> form[action]): still ONE element of that name
CHAINED = {'form:post': 'form', 'form:get': 'form', 'a:link': 'a', 'a:blank': 'a', 'a:mail': 'a', 'bdo:l': 'bdo', 'bdo:r': 'bdo', 'select:d': 'select', 'tarea:c': 'textarea',
           'opt': 'option', 'acr': 'acronym', 'script:src': 'script'}
ALIAS.update(CHAINED)


def unroll(items, parent_name=None, inline=None):
    "expected output tree: list of (name, void, children); inline = the inlineElements option in effect (None: the default list)"
    inl = INLINE if inline is None else set(inline)
    res = []
    for n in items:
        for _ in range(n.rep):
            if n.group:
                res += unroll(n.ch, parent_name, inline)
            else:
                name = ALIAS.get(n.name, n.name)
                if name is None:
                    p = (parent_name or '').lower()
                    name = IMPLICIT.get(p, 'span' if p in inl else 'div')
                res.append((name, n.void, unroll(n.ch, name, inline)))
    return res


def flatten(tree, style='html'):
    out = []
    for name, void, ch in tree:
        if void and not ch:
            out.append(('open' if style == 'html' else 'selfclose', name))
        else:
            out.append(('open', name))
            out += flatten(ch, style)
            out.append(('close', name))
    return out


def spell(tokens, elems, group_reps):
    "abbreviation text for a skeleton given the same element / group-repeat sequences"
    s = []
    ei = iter(elems)
    gi = iter(group_reps)
    for t in tokens:
        if t == 'E':
            e = next(ei)
            x = (e.name or '') + (e.extra or '')
            if e.void:
                x += '/'
            if e.rep != 1:
                x += '*%d' % e.rep
            s.append(x)
        elif t == '(':
            s.append('(')
        elif t == ')':
            r = next(gi)
            s.append(')' if r == 1 else ')*%d' % r)
        elif t in ('>', '+'):
            s.append(t)
        else:
            s.append('^' * t[1])
    return ''.join(s)
