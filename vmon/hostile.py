"""Hostile calling context for the monitored calls of the expand() family.

The properties quantify over inputs and configurations; a unit test - and a checker that makes one clean call per case - observes
each call in a pristine process.  A long-lived host (an editor plug-in) does not: calls fail half-way, user callbacks raise, a kept
Config object is tuned in place, expand() is called again from inside a callback of a running expand(), a cache sees a broken snippet
table between two good ones.  None of that may change what a later (or the inner) call returns.

`wrap(fn, ctx)` returns a callable used by a property module in place of `emmet.expand`.  It makes exactly the same call and hands
back the same result / exception, but

  * every `step_every`-th call is preceded by one HOSTILE STEP (not judged, outcome ignored):
      kept-config      a Config object built without own sections whose options / snippets / variables the caller then assigns
                       in place (top-level assignment only: nested default lists are never touched), used for one call
      failing-snippet  a call that raises inside a definition nested in another definition (built-in `!` -> `doc` -> `meta:vp`)
      raising-callback output.field / output.text raising at its k-th invocation, in the HTML formatter, the indentation
                       formatters and the stylesheet formatter, under repeaters and wrap text
      bad-values       values of the wrong type half-way through a conversion (an int variable, a string limit)
      malformed        abbreviations that end in the middle of a construct
      deep             nesting beyond the interpreter's recursion limit
      injected-fault   InjectedFault raised at a random function entry of a random call (source-free failpoint)
      poisoned-cache   (stylesheet calls that carry a `cache`) one call sharing that cache whose snippet table has a broken entry
  * every `inside_every`-th call is made from INSIDE a callback of an outer expand() (re-entrancy), and the outer call's own
    output must be the one it has without the inner call;
  * every `object_every`-th call (when only a dict is passed) goes through the alternative entry `expand(abbr, Config(dict))`;
  * every 41st call hands over the same arguments in another legal form (vmon/forms.py).

The monitored call is then judged by the property's ordinary oracle: a leak of any of this into a result is a violation of that
property.  Counters `hostile:*` in the evidence say what was actually driven.  `VERIF_HOSTILE=0` switches the layer off."""
import os

from . import core, forms, probes

ON = os.environ.get('VERIF_HOSTILE', '1') != '0'


class Boom(Exception):
    "raised by the harness's own callbacks"


OPTION_EDITS = [('output.indent', '~~'), ('output.baseIndent', '>>'), ('output.newline', '\r\n'), ('output.selfClosingStyle', 'xml'),
                ('output.selfClosingStyle', 'xhtml'), ('comment.enabled', True), ('output.attributeQuotes', 'single'),
                ('output.attributeCase', 'upper'), ('output.tagCase', 'upper'), ('output.compactBoolean', True),
                ('output.reverseAttributes', True), ('output.format', False), ('output.inlineBreak', 0), ('output.formatLeafNode', True),
                ('inlineElements', ['div', 'p', 'li']), ('output.formatSkip', ['ul', 'div']), ('output.formatForce', ['span', 'a']),
                ('output.booleanAttributes', ['title', 'href', 'class']), ('bem.enabled', True), ('jsx.enabled', True),
                ('markup.href', False), ('markup.attributes', {'class': 'klass', 'id': 'ident'}), ('markup.valuePrefix', {'class': 'v'}),
                ('stylesheet.intUnit', 'pt'), ('stylesheet.floatUnit', 'pc'), ('stylesheet.between', ' = '), ('stylesheet.after', ' !'),
                ('stylesheet.shortHex', False), ('stylesheet.unitAliases', {'p': 'pc', 'e': 'ex', 'x': 'Q', 'r': 'rad'}),
                ('stylesheet.unitless', ['padding', 'margin', 'width']), ('stylesheet.keywords', ['zzz']), ('stylesheet.fuzzySearchMinScore', 0.99),
                ('output.field', lambda index, placeholder, **kw: '<F%s>' % index), ('output.text', lambda text, **kw: text.upper())]
SNIPPET_EDITS = [('item', 'li.item'), ('div', 'section.x>p'), ('p', 'margin:1|2'), ('li', 'x-li.k'), ('a', 'x-a[rel]'), ('ul', 'ol.u'), ('span', 'b'),
                 ('m', 'max-width:none'), ('w', 'word-wrap'), ('x-a', 'x-b'), ('b', 'strong'), ('ovw', 'overflow-wrap:anywhere|break-word|normal'),
                 ('tdx', 'text-decoration-x:frob|nicate'), ('pos', 'porous:sieve')]
VARIABLE_EDITS = [('lang', 'xx'), ('locale', 'xx-XX'), ('charset', 'KOI8'), ('indentation', '....'), ('newline', '|')]
CONFIG_SEEDS = [{}, {'syntax': 'html'}, {'type': 'markup'}, {'type': 'stylesheet'}, {'syntax': 'css'}, {'syntax': 'pug'}, {'syntax': 'jsx'},
                {'syntax': 'scss', 'type': 'stylesheet'}, {'syntax': 'xsl'}, {'syntax': 'haml'}, {'syntax': 'slim'}, {'syntax': 'xml'}]
MARKUP_ABBRS = ['ul>li*3>a{$#}', 'div>p{a ${1:b} c}+span[title]', 'table>tr*2>td*2{$}', 'ul>li.i$*>a[href=$#]{t}', '!', 'a>b>c>d^^e+(f>g)*2',
                'x-a[p=1 q r.]>{text ${2}}>x-b', '.b_e>.-c*2', 'form>input:text+select>opt*2', 'p{l1\nl2}>em', 'lorem3*2', 'img+br+x-c/']
SHEET_ABBRS = ['p10+m10-20', 'c#f.5+bd1-s#0', 'ov:h+pos:a+trf:scale(2)', 'lg(right, #fc0, #000)', 'p${1:10}+m${2}', '@kf+anim', 'w100p+h50e!', 'bg+cnt']
MARKUP_SYNTAXES = ['html', 'xml', 'jsx', 'pug', 'haml', 'slim', 'xsl', 'vue']
SHEET_SYNTAXES = ['css', 'scss', 'sass', 'less', 'stylus']
BROKEN_NESTED = [('!', {'meta:vp': "meta[name=viewport content='width=device-width"}), ('doc', {'meta:utf': 'meta[charset'}),
                 ('card', {'card': 'div.card>ttl+p', 'ttl': 'h2{'}), ('x-o', {'x-o': 'x-p>x-q*2>x-r', 'x-r': 'b[', 'x-q': 'i>x-r'}),
                 ('html:5', {'doc': 'html[lang=${lang}]>(head>meta:utf+title{${1:Document}})+body{'}), ('ol+', {'li': 'li>{'})]
BROKEN_SHEET_TABLES = [{'gap': 'gap:${1:10px'}, {'zz': 'zed:(', 'p': 'padding:1'}, {'bd': 'border:${', 'm': 'margin'}, {'q': 'quux:"'}]
MALFORMED = ['ul>li*3>(a+', 'a[title="x', 'p{abc', 'div>(p+(span>', 'a[b=c d', 'x*3>y{${1:', 'p10+m${', 'c#f.+(']
STEP_KINDS = ['kept-config', 'failing-snippet', 'raising-callback', 'bad-values', 'malformed', 'deep', 'injected-fault']


def quiet(fn, *a, **kw):
    try:
        return ('ok', fn(*a, **kw))
    except (KeyboardInterrupt, SystemExit):
        raise
    except BaseException as e:      # noqa: the outcome of a hostile step is not judged
        return ('exc', type(e).__name__)


class Hostile:
    def __init__(self, ctx, step_every=61, inside_every=29, object_every=37, kinds=None):
        import emmet
        self.emmet = emmet
        self.ctx = ctx
        self.rng = core.random.Random(core.h64('hostile/%s/%s/%s/%s' % (ctx.prop_id, ctx.tier, ctx.seed, ctx.shard_index)))
        self.step_every, self.inside_every, self.object_every = step_every, inside_every, object_every
        self.kinds = kinds or STEP_KINDS
        self.n = 0
        self.trail = []          # the last hostile steps, attached to violation records
        self.outer_plain = {}
        self.replaying = bool(getattr(ctx, 'replaying', False))
        self.primed = False
        ctx.hostile = self

    # ---- the hostile steps (never judged) -----------------------------------------------------------------------------------
    def step(self, kind=None):
        probes.QUIET[0] = True
        try:
            self._step(kind)
        finally:
            probes.QUIET[0] = False

    def _step(self, kind=None):
        rng, em = self.rng, self.emmet
        kind = kind or rng.choice(self.kinds)
        self.ctx.mon('hostile:step:' + kind)
        note = kind
        if kind == 'kept-config':
            c = em.Config(dict(rng.choice(CONFIG_SEEDS)))
            for k, v in rng.sample(OPTION_EDITS, rng.randint(2, 8)):
                c.options[k] = v
            for k, v in rng.sample(SNIPPET_EDITS, rng.randint(1, 5)):
                c.snippets[k] = v
            for k, v in rng.sample(VARIABLE_EDITS, rng.randint(1, 3)):
                c.variables[k] = v
            quiet(em.expand, rng.choice(SHEET_ABBRS if c.type == 'stylesheet' else MARKUP_ABBRS), c)
        elif kind == 'failing-snippet':
            ab, tbl = rng.choice(BROKEN_NESTED)
            r = quiet(em.expand, ab + rng.choice(['', '>p', '*2', '.c']), {'syntax': rng.choice(['html', 'pug', 'xsl', 'jsx']), 'snippets': dict(tbl)})
            note += ':' + r[0]
        elif kind == 'raising-callback':
            sheet = rng.random() < 0.3
            k = rng.randint(1, 9)
            which = rng.choice(['output.field', 'output.text'])
            seen = [0]

            def cb(*a, **kw):
                seen[0] += 1
                if seen[0] >= k:
                    raise Boom('callback %d' % k)
                return a[0] if which == 'output.text' else (a[1] if len(a) > 1 else '')
            if sheet:
                cfg = {'type': 'stylesheet', 'syntax': rng.choice(SHEET_SYNTAXES), 'options': {which: cb}}
                ab = rng.choice(SHEET_ABBRS)
            else:
                cfg = {'syntax': rng.choice(MARKUP_SYNTAXES), 'options': {which: cb, 'output.indent': rng.choice(['\t', '  '])}}
                ab = rng.choice(MARKUP_ABBRS)
                if rng.random() < 0.5:
                    cfg['text'] = rng.choice([['one', 'two', 'three'], 'single', ['a', '', 'b']])
                if rng.random() < 0.3:
                    cfg['options'].update({'bem.enabled': True, 'comment.enabled': True})
            r = quiet(em.expand, ab, cfg)
            note += ':%s@%d:%s' % (which, k, r[0])
        elif kind == 'bad-values':
            cfg = rng.choice([{'text': ['a', 'b'], 'variables': {'year': 2024}}, {'maxRepeat': '10'}, {'text': ['a'], 'variables': {'lang': None}},
                              {'options': {'output.indent': None}}, {'text': 5}, {'snippets': {'x': None}}, {'options': {'output.inlineBreak': 'x'}}])
            ab = rng.choice(['ul>li*>{${year}: $#}', 'ul>li*3>a*2', 'html[lang=${lang}]>p*', 'div>p>span', 'p*', 'x>y', 'p+p+p+p>b'])
            r = quiet(em.expand, ab, dict(cfg))
            note += ':' + r[0]
        elif kind == 'malformed':
            ab = rng.choice(MALFORMED)
            cfg = {'type': 'stylesheet'} if ab[0] in 'pc' and rng.random() < 0.5 else {'syntax': rng.choice(MARKUP_SYNTAXES)}
            if rng.random() < 0.4:
                cfg['text'] = ['w1', 'w2']
            quiet(em.expand, ab, cfg)
        elif kind == 'deep':
            n = rng.choice([300, 600, 1200])
            shape = rng.choice(['a>', '(', 'p{', 'lg('])
            if shape == 'a>':
                quiet(em.expand, 'a>' * n + 'a', {'syntax': rng.choice(['html', 'pug'])})
            elif shape == '(':
                quiet(em.expand, '(' * n + 'a' + ')' * n, {})
            elif shape == 'p{':
                quiet(em.expand, 'ul>li*>' + 'a>' * n + 'b', {'text': ['x', 'y']})
            else:
                quiet(em.expand, 'bg:' + 'f(' * n + '1' + ')' * n, {'type': 'stylesheet'})
        elif kind == 'injected-fault':
            sheet = rng.random() < 0.3
            ab = rng.choice(SHEET_ABBRS if sheet else MARKUP_ABBRS)
            cfg = {'type': 'stylesheet', 'syntax': rng.choice(SHEET_SYNTAXES)} if sheet else {'syntax': rng.choice(MARKUP_SYNTAXES)}
            if not sheet and rng.random() < 0.5:
                cfg['text'] = ['one', 'two']
            if not sheet and rng.random() < 0.3:
                cfg['options'] = {'bem.enabled': True, 'comment.enabled': True}
            fi = probes.FaultInjector()
            fi.install()
            try:
                total = fi.count(lambda: em.expand(ab, dict(cfg)))
                if total:
                    k = rng.randint(1, total)
                    probes.M.restart_events()
                    r = fi.run(lambda: em.expand(ab, dict(cfg)), k)
                    note += ':%d/%d:%s' % (k, total, fi.where)
            finally:
                fi.uninstall()
        self.trail.append(note)
        del self.trail[:-4]

    def poison(self, cfg):
        "one call sharing the caller's cache whose snippet table has a broken entry"
        self.ctx.mon('hostile:step:poisoned-cache')
        c2 = dict(cfg)
        tbl = dict(c2.get('snippets') or {})
        tbl.update(self.rng.choice(BROKEN_SHEET_TABLES))
        c2['snippets'] = tbl
        probes.QUIET[0] = True
        try:
            r = quiet(self.emmet.expand, self.rng.choice(SHEET_ABBRS), c2)
        finally:
            probes.QUIET[0] = False
        self.trail.append('poisoned-cache:' + r[0])
        del self.trail[:-4]

    def prime_all(self):
        "replay: every kind of step a few times, so that a violation found in a hostile context can show again"
        for kind in self.kinds:
            for _ in range(6):
                self.step(kind)
        self.primed = True

    # ---- the monitored call in a hostile context ------------------------------------------------------------------------------
    def outer_case(self):
        rng = self.rng
        if rng.random() < 0.25:
            return ('p10+m${1:2}+c#f', {'type': 'stylesheet', 'syntax': rng.choice(SHEET_SYNTAXES)}, rng.choice(['output.field', 'output.text']))
        return (rng.choice(['x-o>x-i{t}+x-j[a]', 'ul>li*2>{w $#}', 'x-o.b_e>x-i.-m{t}', 'p{t}']),
                {'syntax': rng.choice(MARKUP_SYNTAXES), 'text': ['one', 'two'], 'options': {'output.indent': '  '}}, rng.choice(['output.field', 'output.text']))

    def inside_callback(self, fn, a, kw):
        "the call made from inside a callback of an outer expand(); returns what the call returned / raises what it raised"
        em = self.emmet
        oab, ocfg, which = self.outer_case()
        box = []
        at = self.rng.randint(1, 3)
        seen = [0]

        def cb(*x, **k):
            seen[0] += 1
            if seen[0] == at and not box:
                box.append(core.call(fn, *a, **kw))
            return x[0] if which == 'output.text' else '[%s:%s]' % (x[0], x[1] if len(x) > 1 else '')

        def cb_plain(*x, **k):
            return x[0] if which == 'output.text' else '[%s:%s]' % (x[0], x[1] if len(x) > 1 else '')
        key = repr((oab, ocfg, which))
        cfg1 = dict(ocfg, options=dict(ocfg.get('options') or {}, **{which: cb}))
        out = core.call(em.expand, oab, cfg1)
        if not box:
            # the callback was invoked fewer than `at` times: make the call plainly
            return self.plain(fn, a, kw)
        self.ctx.mon('hostile:inside-callback')
        cfg2 = dict(ocfg, options=dict(ocfg.get('options') or {}, **{which: cb_plain}))
        plain = core.call(em.expand, oab, cfg2)
        o1 = out[1] if out[0] == 'ok' else repr(out[1])
        o2 = plain[1] if plain[0] == 'ok' else repr(plain[1])
        if o1 != o2:
            self.ctx.violation('outer-call-changed-by-a-call-made-from-its-callback',
                               {'outer': oab, 'outer_config': repr(ocfg), 'callback': which, 'inner_args': repr(a)[:400], 'hostile': True},
                               {'with_inner_call': o1[:400], 'without': o2[:400]})
        self.last = 'inside-callback(%s, %s)' % (oab, ocfg.get('syntax'))
        r = box[0]
        if r[0] == 'exc':
            raise r[1]
        return r[1]

    def plain(self, fn, a, kw):
        self.last = 'plain'
        return fn(*a, **kw)

    def call(self, fn, a, kw):
        self.n += 1
        em = self.emmet
        if self.replaying:
            if not self.primed:
                self.prime_all()
            # replay: plain and inside a callback; a result that depends on the context is handed to the oracle in its deviating form
            p = core.call(fn, *a, **kw)
            try:
                i = ('ok', self.inside_callback(fn, a, kw))
            except (KeyboardInterrupt, SystemExit):
                raise
            except BaseException as e:      # noqa
                i = ('exc', e)
            same = (p[0] == i[0]) and (p[1] == i[1] if p[0] == 'ok' else type(p[1]) is type(i[1]))
            r = p if same else i
            if r[0] == 'exc':
                raise r[1]
            return r[1]
        cfg = a[1] if len(a) > 1 else None
        if self.n % self.step_every == 0:
            self.step()
            if isinstance(cfg, dict) and cfg.get('type') == 'stylesheet' and isinstance(cfg.get('cache'), dict):
                self.poison(cfg)
        if self.n % 41 == 0 and isinstance(a[0], str) and not kw:
            # the same arguments in another legal form (vmon/forms.py): a str subclass that shows something else, tables and sections as Mappings
            self.ctx.mon('form:abbreviation-and-config')
            self.last = 'argument-forms'
            a = (forms.Shown(a[0]),) + ((forms.config_form(cfg, self.n // 41),) if isinstance(cfg, dict) else tuple(a[1:2])) + tuple(a[2:])
            return fn(*a)
        if self.n % self.object_every == 0 and len(a) == 2 and isinstance(cfg, dict) and not kw:
            self.ctx.mon('hostile:config-object')
            self.last = 'config-object'
            return fn(a[0], em.Config(cfg))
        if self.n % self.inside_every == 0 and len(a[0]) <= 150:
            # (long inputs are left alone: the frames of the outer call would move the interpreter's recursion limit)
            return self.inside_callback(fn, a, kw)
        return self.plain(fn, a, kw)


def wrap(fn, ctx, **opts):
    "the callable a property module uses in place of emmet.expand"
    if not ON:
        return fn
    h = Hostile(ctx, **opts)

    def hostile_call(*a, **kw):
        return h.call(fn, a, kw)
    hostile_call.hostile = h
    return hostile_call
