"""Validates the monitors themselves: applies each deliberate, test-suite-passing break
(mutants/specs.py: string replacements; seeded/<id>/patch.diff: patches written by
independent sub-agents) to a scratch copy of /repo outside /repo and /verif, confirms the
repository's own tests still pass there, runs the property's check against the copy and
expects exit 1 (VIOLATION).  The scratch copy is deleted immediately afterwards.

    vcheck selftest [--tier quick|thorough] [--no-tests] [name-or-property ...]
"""
import importlib.util
import json
import os
import shutil
import subprocess
import sys
import time

VERIF = os.path.dirname(os.path.dirname(os.path.abspath(__file__)))
SCRATCH_ROOT = os.environ.get('VERIF_SCRATCH', '/root/.vscratch')
PY = '/venv/bin/python'


def load_specs():
    p = os.path.join(VERIF, 'mutants', 'specs.py')
    spec = importlib.util.spec_from_file_location('mutant_specs', p)
    m = importlib.util.module_from_spec(spec)
    spec.loader.exec_module(m)
    return m.MUTANTS


def load_seeded():
    out = []
    root = os.path.join(VERIF, 'seeded')
    if not os.path.isdir(root):
        return out
    for d in sorted(os.listdir(root)):
        meta = os.path.join(root, d, 'meta.json')
        patch = os.path.join(root, d, 'patch.diff')
        if os.path.exists(meta) and os.path.exists(patch):
            with open(meta) as f:
                m = json.load(f)
            if m.get('superseded_by'):
                continue        # a later repair of the library made this change harmless (meta.json says which)
            out.append({'name': 'seeded/' + d, 'property': m['property'], 'patch': patch,
                        'also': m.get('also_detected_by', [])})
    return out


def make_scratch(name):
    d = os.path.join(SCRATCH_ROOT, name.replace('/', '_'))
    shutil.rmtree(d, ignore_errors=True)
    os.makedirs(SCRATCH_ROOT, exist_ok=True)
    subprocess.run(['rsync', '-a', '--exclude', '.git', '--exclude', '__pycache__', '--exclude', '*.egg-info', '/repo/', d + '/'], check=True)
    return d


def apply(mut, d):
    if 'patch' in mut:
        r = subprocess.run(['patch', '-p1', '-s', '-i', mut['patch']], cwd=d, capture_output=True, text=True)
        if r.returncode != 0:
            raise RuntimeError('patch failed: %s %s' % (r.stdout, r.stderr))
        return
    for edit in mut['edits']:
        p = os.path.join(d, edit['file'])
        with open(p) as f:
            s = f.read()
        if s.count(edit['old']) != 1:
            raise RuntimeError('mutant %s: anchor occurs %d times in %s' % (mut['name'], s.count(edit['old']), edit['file']))
        with open(p, 'w') as f:
            f.write(s.replace(edit['old'], edit['new']))


def run_tests(d):
    env = dict(os.environ, PYTHONPATH=d, PYTHONDONTWRITEBYTECODE='1')
    r = subprocess.run([PY, '-B', '-m', 'pytest', '-q', '-x', '-p', 'no:cacheprovider', '--timeout=900'], cwd=d, env=env,
                       capture_output=True, text=True)
    return r.returncode == 0, (r.stdout + r.stderr)[-600:]


def run_check(prop, tier, d, outdir):
    env = dict(os.environ, VERIF_REPO=d, VERIF_OUT=outdir)
    t0 = time.time()
    r = subprocess.run([os.path.join(VERIF, 'vcheck'), prop, tier], cwd=VERIF, env=env, capture_output=True, text=True)
    return r.returncode, r.stdout + r.stderr, time.time() - t0


def main(argv):
    tier = 'quick'
    tests = True
    sel = []
    it = iter(argv)
    for a in it:
        if a == '--tier':
            tier = next(it)
        elif a == '--no-tests':
            tests = False
        else:
            sel.append(a)
    muts = load_specs() + load_seeded()
    if sel:
        muts = [m for m in muts if m['name'] in sel or m['property'] in sel or any(m['name'].startswith(s) for s in sel)]
    bad = 0
    rows = []
    for mut in muts:
        d = make_scratch(mut['name'])
        outdir = d + '.out'
        try:
            try:
                apply(mut, d)
            except RuntimeError as e:       # the tree moved on (a repo fix changed the anchored lines): report, keep going
                bad += 1
                print('%-44s %s %-10s %s' % (mut['name'], mut['property'], 'STALE', str(e)[:160]))
                sys.stdout.flush()
                continue
            ok_tests, tail = run_tests(d) if tests else (True, '')
            rc, out, wall = run_check(mut['property'], tier, d, outdir)
            first = next((l for l in out.splitlines() if l.startswith('VIOLATION')), '')
            kinds = next((l.strip() for l in out.splitlines() if 'unexplained violations by kind' in l), '')
            status = 'CAUGHT' if rc == 1 else ('MISSED rc=%d' % rc)
            if rc != 1:
                # a change filed under one property may break another one's statement (its meta.json says which check reports it)
                for other in mut.get('also', []):
                    rc2, out2, wall2 = run_check(other, tier, d, outdir)
                    wall += wall2
                    if rc2 == 1:
                        rc, out = 1, out2
                        kinds = next((l.strip() for l in out2.splitlines() if 'unexplained violations by kind' in l), '')
                        status = 'CAUGHT by %s (not by %s)' % (other, mut['property'])
                        break
            if not ok_tests:
                status += ' (repo tests FAIL with this mutant: not a valid mutant)'
            if rc != 1 or not ok_tests:
                bad += 1
            rows.append((mut['name'], mut['property'], status, wall, kinds))
            print('%-44s %s %-10s %5.1fs %s' % (mut['name'], mut['property'], status, wall, kinds[:150]))
            if rc != 1:
                print('\n'.join('      ' + l for l in out.splitlines()[:8]))
            sys.stdout.flush()
        finally:
            shutil.rmtree(d, ignore_errors=True)
            shutil.rmtree(outdir, ignore_errors=True)
    print('selftest: %d mutants, %d not caught/invalid' % (len(muts), bad))
    return 1 if bad else 0


if __name__ == '__main__':
    sys.exit(main(sys.argv[1:]))
