"""The same arguments in another legal Python form.

The properties quantify over strings, positions and configurations - not over `type(x) is str`.  Real callers hand over what they have:
a member of a `class X(str, Enum)`, a `markupsafe.Markup` document, a read-only `MappingProxyType` of settings, a `ChainMap` of project
over user settings, a `UserDict`.  Every one of these IS the string / mapping the property speaks about; the result must be the result
for the plain form.  The wrappers below are used by the checks for a share of their monitored calls (counters `form:*`)."""
import collections
import collections.abc
import types


class Shown(str):
    """a str subclass whose str() / format() / repr() show something else than its characters (what `class X(str, Enum)` members do):
    code that runs its input through str() or '%s' works on the wrong text"""
    __slots__ = ()

    def __str__(self):
        return 'Shown.MEMBER'

    def __repr__(self):
        return '<Shown.MEMBER>'

    def __format__(self, spec):
        return 'Shown.MEMBER'


def esc(s):
    return str.replace(str.replace(str.replace(str.replace(str.replace(s, '&', '&amp;'), '<', '&lt;'), '>', '&gt;'), '"', '&#34;'), "'", '&#39;')


class MarkupLike(str):
    """behaves like markupsafe.Markup (standard library only): slices and case mappings stay MarkupLike, and joining it with a PLAIN string
    escapes the plain operand - `'</' + name` is `&lt;/script` when `name` is a slice of such a document"""
    __slots__ = ()

    def __getitem__(self, k):
        return MarkupLike(str.__getitem__(self, k))

    def __add__(self, other):
        return MarkupLike(str.__add__(self, other if isinstance(other, MarkupLike) else esc(other)))

    def __radd__(self, other):
        return MarkupLike(str.__add__(other if isinstance(other, MarkupLike) else esc(other), self))

    def __mod__(self, args):
        if not isinstance(args, tuple):
            args = (args,)
        return MarkupLike(str.__mod__(self, tuple(a if isinstance(a, MarkupLike) or not isinstance(a, str) else esc(a) for a in args)))

    def lower(self):
        return MarkupLike(str.lower(self))

    def upper(self):
        return MarkupLike(str.upper(self))

    def strip(self, *a):
        return MarkupLike(str.strip(self, *a))

    def lstrip(self, *a):
        return MarkupLike(str.lstrip(self, *a))

    def rstrip(self, *a):
        return MarkupLike(str.rstrip(self, *a))

    def join(self, seq):
        return MarkupLike(str.join(self, [x if isinstance(x, MarkupLike) else esc(x) for x in seq]))


def mapping_form(d, k):
    "the dict `d` as another Mapping: k selects read-only proxy, ChainMap over an empty front, UserDict, OrderedDict, a dict subclass"
    k %= 5
    if k == 0:
        return types.MappingProxyType(dict(d))
    if k == 1:
        return collections.ChainMap({}, dict(d))
    if k == 2:
        return collections.UserDict(d)
    if k == 3:
        return collections.OrderedDict(d)

    class Settings(dict):
        pass
    return Settings(d)


DICT_OPTIONS = ('markup.attributes', 'markup.valuePrefix', 'stylesheet.unitAliases')
STR_OPTIONS = ('stylesheet.intUnit', 'stylesheet.floatUnit', 'stylesheet.between', 'stylesheet.after', 'output.indent', 'output.newline', 'output.baseIndent',
               'output.attributeQuotes', 'output.selfClosingStyle', 'output.attributeCase', 'output.tagCase')


def config_form(cfg, k):
    """an expand() configuration with the same content in other forms: option values that are tables as Mappings, string options as Shown,
    the `options` / `snippets` / `variables` sections as Mappings.  The top-level dictionary stays a dict when it carries `text` (the library
    parks that key while it parses) or a `cache`."""
    out = dict(cfg)
    opts = out.get('options')
    if isinstance(opts, dict):
        o = dict(opts)
        for name in DICT_OPTIONS:
            if isinstance(o.get(name), dict):
                o[name] = mapping_form(o[name], k + len(name))
        for name in STR_OPTIONS:
            if type(o.get(name)) is str and (k + len(name)) % 3 == 0:
                o[name] = Shown(o[name])
        if isinstance(o.get('stylesheet.unitAliases'), collections.abc.Mapping) and k % 2:
            o['stylesheet.unitAliases'] = mapping_form({a: Shown(b) if type(b) is str else b for a, b in dict(o['stylesheet.unitAliases']).items()}, k)
        out['options'] = mapping_form(o, k + 1) if k % 2 else o
    for sect in ('snippets', 'variables'):
        if isinstance(out.get(sect), dict) and (k + len(sect)) % 2:
            out[sect] = mapping_form(out[sect], k + 2)
    return out
