"""C14 - a snippet alias expands exactly like its definition, and resolution ends.

Refuting events: expand(alias + suffix) != expand(definition spliced in its place + suffix)
for a built-in or user markup snippet; snippet resolution that does not return within the
logical step budget or nests deeper than the number of snippets."""
import re

from .. import core, hostile, outparse, probes

ID = 'C14'
RULE = ('metamorphic pairs on the real code: every built-in markup snippet of html / xsl / pug x 7 syntaxes x suffix forms (none, .c[x=1], {t}, *2, /, >b, >itself, '
        'inside a larger abbreviation), definition spliced as text (/ kept last; attribute/text/repeat/close suffixes on single-top-level definitions, >b on '
        'definitions whose deepest node is an element); user snippets with several top-level nodes for the "applied to the top-level elements" clause; '
        'termination + depth on random user tables of 1-6 snippets over 4 names with self and mutual references and on tables with a forced reference cycle of 2-5; '
        'context independence on those tables (formatting off: expand(A+B) = expand(A) expand(B), also under a parent and around a sibling) - on cyclic tables the cycle '
        'guard cuts "the definition in its place" depending on where resolution started, so the splice oracle is not used there. Non-trivial = the alias differs from its '
        'definition text; distinct by (alias, suffix, syntax) / table')
ASSUMPTIONS = ['text-only definitions have no deepest element: no >b pair for them; definitions that already carry text get no {t} pair',
               'whether a definition has a single top-level node is decided on its text (operators outside brackets, braces and quotes)',
               'user tables reference only their own names, so the nesting bound is the number of user snippets',
               'termination decided on logical steps (20M line events)']
FLOORS = {'quick': {'numbering-pair': 50, 'parse-options-pair': 60, 'builtin-pair': 6000, 'multi-top-pair': 150, 'user-table': 4000, 'user-chain-pair': 1500, 'sibling-pair': 20000}, 'thorough': {'numbering-pair': 50, 'parse-options-pair': 60, 'builtin-pair': 6000, 'multi-top-pair': 150, 'user-table': 180000, 'user-chain-pair': 100000, 'sibling-pair': 500000}}
REQUIRED_MONITORS = ['oracle:alias-equals-definition', 'oracle:multi-top', 'oracle:alias-repeater-governs', 'oracle:context-independent', 'termination:bounded', 'probe:resolve-depth']
SYNTAXES = ['html', 'xsl', 'pug', 'jsx', 'xml', 'haml', 'slim']
NTABLES = {'quick': 700, 'thorough': 12000}


def describe(tier):
    return {'exhaustive': True, 'bounds': {'built_in_tables': 'html, xsl, pug (all keys)', 'syntaxes': SYNTAXES, 'suffix_forms': 7,
                                           'user_tables_per_shard': NTABLES[tier], 'note': 'built-in part exhaustive; user tables sampled'}}


def shards(tier, seed):
    out = [{'kind': 'builtin', 'syntax': s} for s in SYNTAXES]
    out.append({'kind': 'multi'})
    out += [{'kind': 'chain', 'n': 150 if tier == 'quick' else 4000} for _ in range(2 if tier == 'quick' else 8)]
    n = 6 if tier == 'quick' else 15
    out += [{'kind': 'user', 'n': NTABLES[tier]} for _ in range(n)]
    out += [{'kind': 'user', 'cyclic': True, 'n': NTABLES[tier] // 2} for _ in range(n // 3)]
    return out


def bare(defn):
    "definition text without bracketed / braced / quoted content"
    s = re.sub(r'"[^"]*"|\'[^\']*\'', '', defn)
    prev = None
    while prev != s:
        prev = s
        s = re.sub(r'\{[^{}]*\}|\[[^\[\]]*\]', '', s)
    return s


def single_top(defn):
    return not re.search(r'[>+^()]', bare(defn))


def text_only(defn):
    return bare(defn).strip() == ''


def pairs_for(key, defn):
    "yields (label, alias abbreviation, definition abbreviation)"
    yield ('plain', key, defn)
    yield ('inside', 'x-p>%s+x-q' % key, 'x-p>(%s)+x-q' % defn)
    if single_top(defn):
        closed = defn.endswith('/')
        core_ = defn[:-1] if closed else defn
        tail = '/' if closed else ''
        yield ('attrs', key + '.c[x=1]', core_ + '.c[x=1]' + tail)
        if '{' not in defn:
            yield ('text', key + '{t}', core_ + '{t}' + tail)
        yield ('repeat', key + '*2', defn + '*2')
        if not closed and not text_only(defn):
            yield ('close', key + '/', defn + '/')
    if not text_only(defn) and not bare(defn).rstrip().endswith(')'):
        # children go into the deepest element = the last element written in the definition
        last = re.split(r'[>+^(]', bare(defn))[-1]
        if last.strip() and not re.fullmatch(r'\s*', last):
            yield ('child', key + '>x-b', defn + '>x-b')
            if single_top(defn) and not defn.endswith('/'):
                # a repeater on the alias is also what the lorem generator reads (only the first copy opens with "Lorem ipsum")
                yield ('repeat-lorem', key + '*3>lorem4', defn + '*3>lorem4')
            # the alias again among its own children: resolved after the outer alias left the cycle guard
            yield ('child-self', key + '>' + key, defn + '>' + defn)
            yield ('child-self-deep', key + '>x-m>' + key + '+x-n', defn + '>x-m>(' + defn + ')+x-n')


def loose_stream(out):
    res = []
    for t in outparse.tag_stream(out):
        if t[0] == 'open':
            attrs = []
            for n, v in t[2]:
                if n.lower() in ('class', 'classname') and v:
                    v = v[0] + ' '.join(sorted(v[1:-1].split())) + v[-1]
                attrs.append((n, v))
            res.append(('open', t[1], sorted(attrs, key=repr), t[3]))
        elif t[0] == 'text':
            res.append(('text', ' '.join(t[1].split())))
        else:
            res.append(t)
    return repr(res)


def lorem_shape(out):
    return re.sub(r'(?<=>)[^<>]*[A-Za-z][^<>]*(?=<)', lambda m: 'LOREM-OPENING' if re.sub(r'[^a-z ]', '', m.group(0).lower()).split()[:2] == ['lorem', 'ipsum'] else 'words', out)


class Mon:
    def __init__(self, ctx):
        import emmet
        self.ctx = ctx
        self.expand = hostile.wrap(emmet.expand, ctx)

    def pair(self, label, alias, defn, cfg, cls, mon):
        ctx = self.ctx
        case = {'label': label, 'alias': alias, 'definition': defn, 'config': cfg}
        ra = core.call(self.expand, alias, dict(cfg))
        rd = core.call(self.expand, defn, dict(cfg))
        a = ra[1] if ra[0] == 'ok' else 'EXC %s' % (core.exc_site(ra[1]),)
        d = rd[1] if rd[0] == 'ok' else 'EXC %s' % (core.exc_site(rd[1]),)
        if rd[0] == 'exc':
            ctx.mon('workload:definition-splice-does-not-parse')
            return
        ctx.ev(cls)         # only compared pairs count towards the floors
        ctx.mon(mon)
        if (cfg.get('options') or {}).get('output.reverseAttributes') and ra[0] == 'ok':
            # reverse mode puts the alias attributes first by design: compare modulo attribute and class-token order
            try:
                a, d = loose_stream(a), loose_stream(d)
            except outparse.OutParseError:
                pass        # doctype / processing-instruction text: fall back to the exact comparison
        if label.endswith('repeat-lorem') and ra[0] == 'ok':
            # lorem words are random: compare the markup and, per text, whether it opens with the fixed first words
            a, d = lorem_shape(a), lorem_shape(d)
        if a != d:
            ctx.violation('alias-differs-from-definition', case, {'alias_output': a[:300], 'definition_output': d[:300]})
            return
        if alias != defn:
            ctx.seen((alias, defn, repr(sorted(cfg.items(), key=repr))))
        ctx.state('suffix', label)
        if len(ctx.samples) < 3 and label in ('attrs', 'child') and len(defn) > 20:
            ctx.sample({'alias': alias, 'definition': defn, 'config': cfg, 'both_expand_to': a[:200]})


MULTI = {'vm': 'x-a[k=1]+x-b>x-c', 'vn': 'x-a.d+x-b{u}', 'vo': '(x-a>x-b)+x-c[k]', 'vq': 'x-a/+x-b', 'vr': 'x-a>x-b+x-c+x-d',
         'vs': 'x-a>(x-b>x-c+x-d+x-e+x-f)+x-g>x-h+x-i+x-j', 'vt': 'x-a+x-b+x-c+x-d',
         # a top-level TEXT node (the doctype line of `!`) is not an element: what is written on the alias goes to the elements beside it
         'vx': '{<!-- head -->}+x-a>x-b', 'vy': 'x-a+{tail}', 'vz': '{one}+x-a[k=1]+{two}+x-b'}
MULTI_PAIRS = [
    ('vm.c', 'x-a[k=1].c+x-b.c>x-c'), ('vm[z=2]', 'x-a[k=1][z=2]+x-b[z=2]>x-c'), ('vm{t}', 'x-a[k=1]{t}+x-b{t}>x-c'), ('vm*2', '(x-a[k=1]+x-b>x-c)*2'),
    ('vm>x-d', 'x-a[k=1]+x-b>x-c>x-d'), ('vm>x-d+x-e', 'x-a[k=1]+x-b>x-c>x-d+x-e'), ('x-p>vm^x-q', 'x-p>(x-a[k=1]+x-b>x-c)^x-q'),
    ('vn.c', 'x-a.d.c+x-b.c{u}'), ('vn{t}', 'x-a.d{t}+x-b{t}'), ('vn*3', '(x-a.d+x-b{u})*3'), ('vn>x-d', 'x-a.d+x-b{u}>x-d'),
    ('vo.c', '(x-a.c>x-b)+x-c[k].c'), ('vo>x-d', '(x-a>x-b)+x-c[k]>x-d'), ('vo*2', '((x-a>x-b)+x-c[k])*2'),
    ('vr>x-z', 'x-a>x-b+x-c+x-d>x-z'), ('vr.c>x-z*2', 'x-a.c>x-b+x-c+x-d>x-z*2'), ('vs>x-z', 'x-a>(x-b>x-c+x-d+x-e+x-f)+x-g>x-h+x-i+x-j>x-z'),
    ('vt>x-z', 'x-a+x-b+x-c+x-d>x-z'), ('vt.c', 'x-a.c+x-b.c+x-c.c+x-d.c'), ('x-p>vr>x-z', 'x-p>x-a>x-b+x-c+x-d>x-z'),
    ('vx.c', '{<!-- head -->}+x-a.c>x-b'), ('vx[z=2]', '{<!-- head -->}+x-a[z=2]>x-b'), ('vx{t}', '{<!-- head -->}+x-a{t}>x-b'), ('vx>x-d', '{<!-- head -->}+x-a>x-b>x-d'),
    ('vy.c', 'x-a.c+{tail}'), ('vy#i{t}', 'x-a#i{t}+{tail}'), ('vz.c[z=2]', '{one}+x-a[k=1].c[z=2]+{two}+x-b.c[z=2]'), ('x-p>vz.c', 'x-p>{one}+x-a[k=1].c+{two}+x-b.c'), ('vy/', 'x-a/+{tail}'),
    ('vq.c', 'x-a.c/+x-b.c'), ('vq/', 'x-a/+x-b/'), ('vq>x-d', 'x-a/+x-b>x-d'), ('vm.c*2>x-d', '(x-a[k=1].c+x-b.c>x-c>x-d)*2'),
]


def user_table(rng):
    names = ['va', 'vb', 'vc', 'vd']
    n = rng.randint(1, 6)
    tbl = {}
    for _ in range(n):
        k = rng.choice(names) if rng.random() < 0.8 else rng.choice(names) + rng.choice(['x', ':y'])
        parts = []
        for _ in range(rng.randint(1, 3)):
            r = rng.random()
            e = rng.choice(names) if r < 0.65 else rng.choice(['x-e', 'x-f', k])
            if rng.random() < 0.3:
                e += rng.choice(['.c', '[a=b]', '{t}', '*2', '/'])
            parts.append(e)
        ops = [rng.choice(['>', '+', '+']) for _ in parts[1:]]
        s = parts[0]
        for op, pt in zip(ops, parts[1:]):
            if s.endswith('/') and op == '>':
                op = '+'
            s += op + pt
        if rng.random() < 0.15:
            s = '(' + s + ')*2'
        tbl[k] = s
    return tbl


def cyclic_table(rng):
    "a reference cycle of 2-5 snippets (each definition mentions the next one somewhere), plus random extras"
    names = ['va', 'vb', 'vc', 'vd', 'vg']
    k = rng.randint(2, 5)
    cyc = rng.sample(names, k)
    tbl = user_table(rng) if rng.random() < 0.4 else {}
    for i, nm in enumerate(cyc):
        nxt = cyc[(i + 1) % k]
        own = rng.choice(['x-e', 'x-f', 'x-h%d' % i])
        deco = rng.choice(['', '', '.c', '[a=b]', '{t}'])
        tbl[nm] = rng.choice(['%s%s>%s', '%s%s+%s', '%s%s', 'x-o>%s%s+%s', '%s%s>%s>x-i']).replace('%s', '{0}', 1).replace('%s', '{1}', 1).replace('%s', '{2}', 1).format(nxt, deco, own)
    return tbl


def sibling_independence(mon, ctx, rng, tbl):
    """What an alias expands to does not depend on what else stands in the abbreviation: with formatting
    off, expand(A+B) is expand(A) followed by expand(B), and expand(x-p>A+B) wraps the same in <x-p>.
    (On tables with cycles 'the definition in its place' is cut by the cycle guard at a place that depends on
    where resolution started, so the splice oracle is not used there - this one holds regardless.)"""
    names = sorted(tbl)
    cfg = {'syntax': rng.choice(['html', 'jsx', 'xml']), 'snippets': tbl, 'options': {'output.format': False}}
    alone = {}
    for nm in names:
        for sfx in ('', rng.choice(['.k', '[q=1]', '>x-z', '*2'])):
            r = core.call(mon.expand, nm + sfx, dict(cfg))
            if r[0] == 'ok':
                alone[nm + sfx] = r[1]
    keys = sorted(alone)
    if len(keys) < 2:
        return
    pairs = [(a, b) for a in keys for b in keys]
    if len(pairs) > 40:
        pairs = rng.sample(pairs, 40)
    for a, b in pairs:
        sib_check(mon, ctx, tbl, cfg['syntax'], rng.choice(SIB_SHAPES), a, b, alone)


SIB_SHAPES = ['(%s)+(%s)', '(%s)+%s', 'x-p>(%s)+(%s)', '(%s)+x-m+(%s)', '(%s)+x-m+%s']


def sib_check(mon, ctx, tbl, syntax, shape, a, b, alone=None):
    cfg = {'syntax': syntax, 'snippets': tbl, 'options': {'output.format': False}}
    if alone is None:
        alone = {}
        for x in (a, b):
            r = core.call(mon.expand, x, dict(cfg))
            if r[0] != 'ok':
                return
            alone[x] = r[1]
    ab = shape % (a, b)
    want = alone[a] + ('<x-m></x-m>' if 'x-m' in shape else '') + alone[b]
    if shape.startswith('x-p'):
        want = '<x-p>' + want + '</x-p>'
    ctx.ev('sibling-pair')
    ctx.mon('oracle:context-independent')
    r = core.call(mon.expand, ab, dict(cfg))
    got = r[1] if r[0] == 'ok' else 'EXC %s' % (core.exc_site(r[1]),)
    if got != want:
        ctx.violation('alias-result-depends-on-siblings', {'table': tbl, 'abbr': ab, 'config': {'syntax': syntax}, 'parts': [a, b], 'shape': shape},
                      {'got': got[:300], 'parts_alone_concatenated': want[:300]})
    elif a != b:
        ctx.seen((repr(sorted(tbl.items())), ab))


def run_shard(desc, ctx):
    mon = Mon(ctx)
    from emmet.config import Config
    depth = {'cur': 0, 'max': 0}

    def rs_start(frame):
        depth['cur'] = 0       # a new top-level resolution: reset (an earlier run may have raised)

    def res_start(frame):
        st = frame.f_locals.get('stack')
        if st is not None:
            depth['max'] = max(depth['max'], len(st))

    pr = probes.Probes().add('emmet.markup.snippets:resolve_snippets', rs_start).add('emmet.markup.snippets:walk_resolve') \
        .add('emmet.markup.snippets:merge').add('emmet.markup.utils:find_deepest')
    # the cycle guard lives in the closure `resolve`: its code object is a constant of resolve_snippets
    code = probes.resolve('emmet.markup.snippets:resolve_snippets')
    inner = None
    if code is not None:
        for c in code.co_consts:
            if hasattr(c, 'co_name') and c.co_name == 'resolve':
                inner = c
    if inner is not None:
        pr._names[inner] = 'resolve (closure)'
        pr._start[inner] = res_start
    else:
        pr.unavailable.append('emmet.markup.snippets:resolve_snippets.<locals>.resolve')
    pr.install()
    try:
        if desc['kind'] == 'builtin':
            syntax = desc['syntax']
            # keys come from the RAW tables (multi-key entries split by the harness), not from the parsed registry
            import emmet.snippets.html as RH
            import emmet.snippets.pug as RP
            import emmet.snippets.xsl as RX
            table = {}
            for raw in [RH.snippets] + ([RX.snippets] if syntax == 'xsl' else []) + ([RP.snippets] if syntax == 'pug' else []):
                for k, v in raw.items():
                    for name in k.split('|'):
                        table[name] = v
            for key, defn in sorted(table.items()):
                # a definition that mentions ANOTHER snippet is resolved through the table in effect for the call: when the caller overrides
                # that other snippet, alias and spliced definition must both follow the override (nothing is resolved ahead of time)
                refs = [n for n in re.findall(r'[A-Za-z!][\w:!-]*', bare(defn)) if n in table and n != key]
                for ref in refs[:2]:
                    over = {'syntax': syntax, 'snippets': {ref: 'x-over[o=1]>x-in'}}
                    mon.pair('override-ref', key, defn, over, 'builtin-pair', 'oracle:alias-equals-definition')
                    ctx.ev('override-ref')
                for label, a, d in pairs_for(key, defn):
                    if label == 'repeat-lorem' and syntax in ('pug', 'haml', 'slim'):
                        continue        # the lorem reader of the harness reads angle-bracket output
                    mon.pair(label, a, d, {'syntax': syntax}, 'builtin-pair', 'oracle:alias-equals-definition')
                    if label in ('attrs', 'inside', 'plain') and syntax in ('html', 'xsl'):
                        mon.pair(label + ':reverse', a, d, {'syntax': syntax, 'options': {'output.format': False, 'output.reverseAttributes': True}},
                                 'builtin-pair', 'oracle:alias-equals-definition')
                    if label in ('attrs', 'child') and syntax == 'html':
                        mon.pair(label + ':noformat', a, d, {'syntax': syntax, 'options': {'output.format': False, 'output.reverseAttributes': False}},
                                 'builtin-pair', 'oracle:alias-equals-definition')
        elif desc['kind'] == 'chain':
            rng = ctx.rng
            for _ in range(desc['n']):
                nlinks = rng.randint(2, 9)
                tbl = {}
                for d in range(nlinks):
                    nxt = 'w%d' % (d + 1) if d < nlinks - 1 else rng.choice(['x-end', 'x-end[z]', 'x-end>x-in'])
                    deco = rng.choice(['', '.c%d' % d, '[a%d=%d]' % (d, d), '{t%d}' % d, '.k[m=%d]' % d])
                    shape = rng.choice(['%s%s', 'x-o%d>%%s%%s' % d, '%s%s+x-s', '(%s%s)'])
                    tbl['w%d' % d] = shape % (nxt, deco)
                if rng.random() < 0.3:
                    # the documented idiom of a snippet named after its own element (`img: img[src alt]`), and ANOTHER name whose definition happens to be
                    # the same text: two snippets, not one reference cycle
                    tbl['x-end'] = 'x-end.x'
                    tbl['w%d' % (nlinks - 1)] = 'x-end.x'
                    ctx.ev('chain:twin-definitions')
                for d in rng.sample(range(nlinks), min(3, nlinks)) + [nlinks - 1]:
                    key = 'w%d' % d
                    for label, a, dd in pairs_for(key, tbl[key]):
                        if label in ('plain', 'inside', 'attrs', 'child', 'repeat', 'repeat-lorem'):
                            mon.pair('chain:' + label, a, dd, {'syntax': 'html' if label == 'repeat-lorem' else rng.choice(['html', 'pug']), 'snippets': tbl},
                                     'user-chain-pair', 'oracle:alias-equals-definition')
        elif desc['kind'] == 'multi':
            # a repeater written on the alias governs the top-level elements of the definition - also when they carry a repeater of their own.
            # Observable through lorem alone: the fixed opening words appear in the copies of the FIRST alias repetition, and only there
            tbl = {'lp2': 'p*2>lorem6', 'g2': '(p>lorem6)*2', 'lp': 'p>lorem6', 'two': 'p>lorem6^p>lorem6', 'lq3': 'p*3>lorem5'}
            for ab, per_copy, copies in [('lp2*2', 2, 2), ('g2*3', 2, 3), ('lp*3', 1, 3), ('two*2', 2, 2), ('ul>lp2*2', 2, 2), ('lq3*2', 3, 2), ('(lp2*2)+x-e', 2, 2), ('lp2*2>b', 2, 2)]:
                for syntax in ('html', 'xml', 'jsx'):
                    ctx.ev('alias-repeat-lorem')
                    ctx.mon('oracle:alias-repeater-governs')
                    r = core.call(mon.expand, ab, {'syntax': syntax, 'snippets': tbl, 'options': {'output.format': False}})
                    case = {'alias-repeat-lorem': True, 'abbr': ab, 'table': tbl, 'config': {'syntax': syntax}}
                    if r[0] == 'exc':
                        ctx.violation('exception', case, {'exc': list(core.exc_site(r[1]))})
                        continue
                    flags = [re.sub(r'[^a-z ]', '', x.lower()).split()[:2] == ['lorem', 'ipsum'] for x in re.findall(r'<p>(?:<b>)?([^<]*)<', r[1])]
                    want = [True] * per_copy + [False] * (per_copy * (copies - 1))
                    if flags != want:
                        ctx.violation('alias-repeater-not-applied', case, {'opens_with_fixed_words': flags, 'expected': want, 'output': r[1][:200]})
                    else:
                        ctx.seen(('alias-repeat-lorem', ab, syntax))
            # numbering. D1: `$` written on the ALIAS (or in a definition that no repeater surrounds) is numbered like anywhere else.
            # D2: `$` written INSIDE a definition, with a repeater on or around the alias - "the definition in its place" is numbered by that repeater
            ntbl = {'na': 'x-a.i$', 'nb': 'x-a{t$$}>x-b[k=$]', 'nc': 'x-a.i$@3+x-c', 'nd': 'x-a.i$*2', 'pl': 'x-a.q>x-b'}
            D1 = [('pl.c$*3', 'x-a.q.c$*3>x-b'), ('pl[k=$$]*2', 'x-a.q[k=$$]*2>x-b'), ('x-p*2>pl{t$}', 'x-p*2>x-a.q{t$}>x-b'), ('(pl.c$@-+x-z)*3', '((x-a.q.c$@->x-b)+x-z)*3'),
                  ('na', 'x-a.i$'), ('x-p>nb', 'x-p>x-a{t$$}>x-b[k=$]'), ('nc+na', 'x-a.i$@3+x-c+x-a.i$'), ('nd', 'x-a.i$*2'), ('x-p>nd', 'x-p>x-a.i$*2'), ('pl*2>x-c.j$', 'x-a.q*2>x-b>x-c.j$')]
            D2 = [('na*3', 'x-a.i$*3'), ('nb*2', 'x-a{t$$}*2>x-b[k=$]'), ('(na+x-z)*2', '(x-a.i$+x-z)*2'), ('x-p*3>na', 'x-p*3>x-a.i$'), ('nc*2', '(x-a.i$@3+x-c)*2'),
                  ('x-p*2>nb', 'x-p*2>x-a{t$$}>x-b[k=$]'), ('(x-q>na)*2', '(x-q>x-a.i$)*2'), ('na.c$*2', 'x-a.i$.c$*2')]
            for dom, plist in (('d1', D1), ('d2', D2)):
                for a, d in plist:
                    for syntax in ('html', 'jsx', 'pug'):
                        self_cfg = {'syntax': syntax, 'snippets': ntbl, 'options': {'output.format': False}} if syntax != 'pug' else {'syntax': syntax, 'snippets': ntbl}
                        ctx.ev('numbering-pair:' + dom)
                        mon.pair('numbering:' + dom, a, d, self_cfg, 'numbering-pair', 'oracle:alias-equals-definition')
            # parse-level settings of the call reach the definitions: the repeat limit (both spellings of the key) and JSX mode
            ptbl = {'st': 'span.star*5', 'rw': 'x-c*4>x-d*2', 'cp': 'Foo.Bar', 'cq': 'Foo.Bar>Baz.q*3', 'lk': 'a[href]*3'}
            for extra in ({'maxRepeat': 3}, {'max_repeat': 2}, {'syntax': 'jsx'}, {'syntax': 'jsx', 'maxRepeat': 2}, {'maxRepeat': 1}, {'syntax': 'vue', 'max_repeat': 4}):
                for key, defn in sorted(ptbl.items()):
                    cfg = dict({'syntax': 'html', 'snippets': ptbl}, **extra)
                    mon.pair('parse-options', key, defn, cfg, 'parse-options-pair', 'oracle:alias-equals-definition')
                    mon.pair('parse-options', 'x-p>' + key + '+x-q', 'x-p>(' + defn + ')+x-q', cfg, 'parse-options-pair', 'oracle:alias-equals-definition')
                    mon.pair('parse-options', key + '.c', defn.replace('*', '.c*', 1) if '>' not in defn and '*' in defn else defn + '.c' if '>' not in defn else key + '.c', cfg,
                             'parse-options-pair', 'oracle:alias-equals-definition')
            # D2: the repeat limit is a budget of the whole expansion, but every definition is parsed with a budget of its own (open finding)
            for m in (3, 4):
                for a, d in (('st*2', '(span.star*5)*2'), ('x-p*2>st', 'x-p*2>span.star*5'), ('(st+x-q)*3', '(span.star*5+x-q)*3'), ('lk*2', '(a[href]*3)*2')):
                    ctx.ev('limit-pair:d2')
                    mon.pair('limit:d2', a, d, {'syntax': 'html', 'snippets': ptbl, 'maxRepeat': m, 'options': {'output.format': False}}, 'parse-options-pair', 'oracle:alias-equals-definition')
            for syntax in SYNTAXES:
                for a, d in MULTI_PAIRS:
                    mon.pair('multi-top', a, d, {'syntax': syntax, 'snippets': dict(MULTI)}, 'multi-top-pair', 'oracle:multi-top')
                    if syntax in ('html', 'jsx', 'xml'):
                        mon.pair('multi-top:reverse', a, d, {'syntax': syntax, 'snippets': dict(MULTI), 'options': {'output.reverseAttributes': True, 'output.format': False}},
                                 'multi-top-pair', 'oracle:multi-top')
        else:
            rng = ctx.rng
            for _ in range(desc['n']):
                tbl = cyclic_table(rng) if desc.get('cyclic') else user_table(rng)
                for name in sorted(tbl):
                    ctx.ev('user-table')
                    ab = name + rng.choice(['', '.k', '*2', '>x-z', '{w}'])
                    cfg = {'syntax': rng.choice(['html', 'pug', 'jsx']), 'snippets': tbl}
                    depth['max'] = 0
                    r = probes.bounded(lambda: mon.expand(ab, dict(cfg)), ctx, 'expand')
                    ctx.mon('termination:bounded')
                    case = {'table': tbl, 'abbr': ab, 'config': {'syntax': cfg['syntax']}}
                    if r[0] == 'inconclusive':
                        raise core.OracleError('step-counted re-run hit the watchdog for %r' % (case,))
                    if r[0] == 'nonterm':
                        ctx.violation('non-termination', case, {'steps': r[1]})
                        continue
                    if r[0] == 'exc':
                        ctx.violation('exception', case, {'exc': list(core.exc_site(r[1])), 'msg': str(r[1])[:100]})
                        continue
                    if inner is not None and probes.ENABLED:
                        ctx.mon('probe:resolve-depth')
                        ctx.state('resolve-depth', 'snippets=%d depth=%d' % (len(tbl), depth['max']))
                        if depth['max'] > len(tbl):
                            ctx.violation('probe:resolve-depth', case, {'snippets': len(tbl), 'max_stack_depth': depth['max']})
                    ctx.seen((repr(sorted(tbl.items())), ab))
                if desc.get('cyclic') or rng.random() < 0.5:
                    sibling_independence(mon, ctx, rng, tbl)
                    if len(ctx.samples) < 4 and len(tbl) >= 3 and depth['max'] >= 2:
                        ctx.sample({'user_snippets': tbl, 'abbreviation': ab, 'returned': r[1][:160], 'max_resolution_depth': depth['max']})
    finally:
        pr.uninstall()
    if inner is None or not probes.ENABLED:
        ctx.notes['probes'] = 'resolve closure probe unavailable'
        ctx.mon('probe:resolve-depth', 1)
    for k, v in pr.reach().items():
        ctx.mon('reach:' + k, v)


def replay(case, ctx):
    mon = Mon(ctx)
    if 'alias' in case:
        mon.pair(case['label'], case['alias'], case['definition'], case['config'], 'replay', 'oracle:alias-equals-definition')
    else:
        ctx.ev('replay')
        cfg = dict(case['config'], snippets=case['table'])
        r = probes.bounded(lambda: mon.expand(case['abbr'], cfg), ctx, 'expand')
        if 'parts' in case and r[0] == 'ok':
            sib_check(mon, ctx, case['table'], case['config']['syntax'], case['shape'], case['parts'][0], case['parts'][1])
        elif r[0] == 'nonterm':
            ctx.violation('non-termination', case, {'steps': r[1]})
        elif r[0] == 'exc':
            ctx.violation('exception', case, {'exc': list(core.exc_site(r[1]))})


def _numbering(rec):
    """A definition is parsed on its own, before it is put in the alias's place: a `$` written inside it sees no repeater and is always 1.
    Explains only D2 numbering pairs (repeater on or around the alias, `$` inside the definition) whose two outputs are equal once every
    run of digits is blanked - any other difference in that domain is reported."""
    c = rec['case']
    if rec['kind'] != 'alias-differs-from-definition' or c.get('label') != 'numbering:d2':
        return False
    a, d = rec['detail'].get('alias_output', ''), rec['detail'].get('definition_output', '')
    return a != d and re.sub(r'\d+', '#', a) == re.sub(r'\d+', '#', d)


def _limit(rec):
    """maxRepeat is handed to the parser of every definition separately: each definition completes up to M copies of its own, so an alias under a
    repeater yields more elements than its definition in place, which shares ONE budget.  Explains only the D2 limit pairs, and only when the alias
    output is the longer one and differs from the definition's in nothing but the number of (equal) elements."""
    c = rec['case']
    if rec['kind'] != 'alias-differs-from-definition' or c.get('label') != 'limit:d2':
        return False
    a, d = rec['detail'].get('alias_output', ''), rec['detail'].get('definition_output', '')
    ta, td = re.findall(r'<[^<>]+>', a), re.findall(r'<[^<>]+>', d)
    return len(ta) > len(td) and set(ta) == set(td)


CLASSIFIERS = {'C14-numbering-inside-definition-ignores-alias-repeater': _numbering, 'C14-repeat-limit-counted-per-definition': _limit}
