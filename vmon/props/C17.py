"""C17 - editor action helpers select exactly the tag, attribute and property parts.

Refuting events: for a generated document and a position, get_open_tag /
select_item_html / get_css_section / select_item_css differ from the generator's record of
tags, attributes, class tokens, declarations, value tokens and before/after offsets."""
import json
from .. import core, forms, gen_css, gen_html
from . import C10

ID = 'C17'
RULE = ('cases = (generated HTML or CSS document, position); same generators as C09/C10 extended with class attributes (blank runs, empty), '
        'expression values and declarations ended by the end of the body; every position 0..len; get_open_tag, select_item_html next+previous, '
        'get_css_section with properties, select_item_css next+previous. Non-trivial = at least one helper returned a model at that position; distinct by (document, position)')
ASSUMPTIONS = ['generator bookkeeping self-checked; value tokens are the generator\'s own tokens minus the operators + / * , and " - "',
               'get_open_tag may return a close-tag context (type 2) for a position inside a close tag: it is never an open/self-closing tag there',
               'get_css_section boundary positions relaxed as in C09 (a rule touching the position with no recorded rule strictly containing it below)',
               'select_item_css next: positions strictly inside a declaration name or in its colon gap are not judged (the helper then offers the value of '
               'that declaration: an editor convenience the statement neither requires nor forbids)',
               'values containing comments are not generated here (value tokens undefined)']
FLOORS = {'quick': {'html:position': 25000, 'css:position': 25000}, 'thorough': {'html:position': 1000000, 'css:position': 1000000}}
REQUIRED_MONITORS = ['oracle:get_open_tag', 'oracle:select_item_html', 'oracle:get_css_section', 'oracle:css-properties', 'oracle:select_item_css', 'oracle:retained']
NDOCS = {'quick': 32, 'thorough': 800}


def describe(tier):
    return {'exhaustive': False, 'bounds': {'documents_per_shard_per_language': NDOCS[tier], 'positions': 'every position 0..len'}}


def shards(tier, seed):
    n = 8 if tier == 'quick' else 16
    return [{'ndocs': NDOCS[tier], 'part': p} for p in range(n)]


def push(lst, r):
    if r and r[0] != r[1] and (not lst or lst[-1] != r):
        lst.append(r)


def tag_model(src, r):
    ranges = []
    s = r['open'][0]
    push(ranges, (s + 1, s + 1 + len(r['name'])))
    for a in r['attrs']:
        if a['val'] is not None:
            push(ranges, (a['ns'], a['ve']))
            push(ranges, tuple(a['inner']))
            if a['name'].lower() == 'class':
                for t in gen_html.class_tokens(src, a):
                    push(ranges, t)
        else:
            push(ranges, (a['ns'], a['ne']))
    return (r['open'][0], r['open'][1], ranges)


def snap_tag(t):
    return (t.name, t.type, t.start, t.end, tuple((a.name, a.name_start, a.name_end, a.value, a.value_start, a.value_end) for a in (t.attributes or [])))


def snap_model(m):
    return (m.start, m.end, [tuple(x) for x in m.ranges])


def snap_section(s):
    return json.dumps(s.to_json(), sort_keys=True, default=repr)


HELD = core.Retained(every=9)


def kept_options(xml):
    "ONE options dictionary kept by the caller for all documents, its `xml` flag switched per document; the `special` table spells out the default"
    if 'special' not in KEPT:
        from emmet.html_matcher.utils import default_special
        KEPT['special'] = {k: (list(v) if v is not None else None) for k, v in default_special.items()}
    KEPT['xml'] = xml
    return KEPT


KEPT = {}
FORM = [0]


def check_html(src, recs, ctx, au, positions=None, xml=False):
    docase = {'lang': 'html', 'src': src, 'truth': gen_html.to_json(recs), 'xml': xml}
    options = kept_options(xml)
    ctx.ev('html:document:xml' if xml else 'html:document')
    FORM[0] += 1
    arg = forms.MarkupLike(src) if FORM[0] % 5 == 1 else (forms.Shown(src) if FORM[0] % 5 == 3 else src)
    if arg is not src:
        ctx.ev('document:' + type(arg).__name__)
    tags = sorted(recs, key=lambda r: r['open'][0])
    models = [tag_model(src, r) for r in tags]
    for m in models:
        for a, b in m[2]:
            assert m[0] <= a <= b <= m[1], (m, src[m[0]:m[1]])
    for pos in (positions if positions is not None else range(len(src) + 1)):
        ctx.ev('html:position')
        case = dict(docase, pos=pos)
        # ---------------- get_open_tag
        ctx.mon('oracle:get_open_tag')
        r = core.call(au.get_open_tag, arg, pos)
        inside = [t for t in tags if t['open'][0] < pos < t['open'][1]]
        if xml:
            pass        # (the helper has no XML mode: judged on the HTML documents only)
        elif r[0] == 'exc':
            ctx.violation('exception', dict(case, fn='get_open_tag'), {'exc': list(core.exc_site(r[1]))})
        else:
            t = r[1]
            HELD.keep(t, snap_tag, case, 'get_open_tag')
            if inside:
                e = inside[0]
                etype = 3 if e['selfclosed'] else 1
                ea = [(a['name'], a['ns'], a['ne'], a['val'], a['vs'], a['ve']) for a in e['attrs']]
                if t is None:
                    ctx.violation('open-tag-missing', case, {'expected': [e['name'], e['open']]})
                else:
                    aa = [(a.name, a.name_start, a.name_end, a.value, a.value_start, a.value_end) for a in (t.attributes or [])]
                    if (t.name, t.type, t.start, t.end) != (e['name'], etype, e['open'][0], e['open'][1]) or aa != ea:
                        ctx.violation('open-tag-mismatch', case, {'expected': [e['name'], etype, e['open'], ea], 'actual': [t.name, t.type, t.start, t.end, aa]})
                    ctx.seen(('h', src, pos))
                    ctx.state('open-tag', '%s attrs=%d' % ('selfclose' if e['selfclosed'] else 'open', min(len(ea), 3)))
            elif t is not None and t.type != 2:
                ctx.violation('open-tag-unexpected', case, {'actual': [t.name, t.type, t.start, t.end]})
        # ---------------- select_item_html
        for is_prev in (False, True):
            ctx.mon('oracle:select_item_html')
            r = core.call(au.select_item_html, arg, pos, is_prev, options) if (xml or pos % 2) else core.call(au.select_item_html, arg, pos, is_prev)
            if r[0] == 'exc':
                ctx.violation('exception', dict(case, fn='select_item_html', prev=is_prev), {'exc': list(core.exc_site(r[1]))})
                continue
            m = r[1]
            HELD.keep(m, snap_model, dict(case, prev=is_prev), 'select_item_html')
            if is_prev:
                c = [x for x in models if x[0] < pos]
                e = c[-1] if c else None
            else:
                c = [x for x in models if x[1] > pos]
                e = c[0] if c else None
            a = (m.start, m.end, [tuple(x) for x in m.ranges]) if m is not None else None
            if a != e:
                ctx.violation('select-html-mismatch', dict(case, prev=is_prev), {'expected': e, 'actual': a})
            elif a is not None:
                ctx.seen(('h', src, pos))
                ctx.state('select-html', 'ranges=%d' % min(len(a[2]), 8))
                if len(ctx.samples) < 1 and len(a[2]) >= 5:
                    ctx.sample({'document': src[:200], 'pos': pos, 'previous': is_prev, 'model': {'start': a[0], 'end': a[1], 'ranges': a[2]}})


def value_tokens(src, d):
    out = []
    for (a, b), txt in zip(d['tr'], d['toks']):
        if txt in ('/', '-', '+', '*', ','):
            continue
        if src[b - 1] == ',':
            b -= 1
        out.append((a, b))
    return out


def decl_after(d):
    return d['semi'] + 1 if d['semi'] is not None else d['ve']


def css_item_model(src, it):
    "expected select-item model of one selector or declaration"
    if it['type'] == 'rule':
        return (it['start'], it['sel_end'], [(it['start'], it['sel_end'])])
    end = decl_after(it)
    ranges = []
    push(ranges, (it['start'], end))
    if it['vs'] is not None:
        push(ranges, (it['vs'], it['ve']))
        for t in value_tokens(src, it):
            push(ranges, t)
    return (it['start'], end, ranges)


def check_css(src, recs, ctx, au, positions=None):
    FORM[0] += 1
    arg = forms.MarkupLike(src) if FORM[0] % 5 == 1 else (forms.Shown(src) if FORM[0] % 5 == 3 else src)
    if arg is not src:
        ctx.ev('document:' + type(arg).__name__)
    docase = {'lang': 'css', 'src': src, 'truth': C10.to_json(recs)}
    rules = [r for r in recs if r['type'] == 'rule']
    items = sorted(recs, key=lambda r: r['start'])
    models = [css_item_model(src, it) for it in items]
    for pos in (positions if positions is not None else range(len(src) + 1)):
        ctx.ev('css:position')
        case = dict(docase, pos=pos)
        # ---------------- get_css_section
        ctx.mon('oracle:get_css_section')
        r = core.call(au.get_css_section, arg, pos, True)
        if r[0] == 'exc':
            ctx.violation('exception', dict(case, fn='get_css_section'), {'exc': list(core.exc_site(r[1]))})
        else:
            s = r[1]
            HELD.keep(s, snap_section, case, 'get_css_section')
            strict = [x for x in rules if x['start'] < pos < x['end']]
            touching = [x for x in rules if x['start'] <= pos <= x['end']]
            if s is None:
                if strict:
                    ctx.violation('section-missing', case, {'expected_one_of': [(x['start'], x['end']) for x in strict][:3]})
            elif not touching:
                ctx.violation('section-unexpected', case, {'actual': s.to_json()})
            else:
                cand = [x for x in touching if (x['start'], x['end'], x['brace'] + 1, x['close']) == (s.start, s.end, s.body_start, s.body_end)]
                if not cand:
                    ctx.violation('section-wrong', case, {'actual': [s.start, s.end, s.body_start, s.body_end]})
                else:
                    rr = cand[0]
                    if any(q is not rr and q['start'] < pos < q['end'] and rr['start'] <= q['start'] and q['end'] <= rr['end'] for q in rules):
                        ctx.violation('section-not-innermost', case, {'actual': [s.start, s.end]})
                    else:
                        ctx.seen(('c', src, pos))
                        ctx.mon('oracle:css-properties')
                        decls = [d for d in rr['items'] if d['type'] == 'decl']
                        props = s.properties or []
                        if len(props) != len(decls):
                            ctx.violation('properties-count', case, {'expected': len(decls), 'actual': [p.to_json() for p in props][:6]})
                        else:
                            before = rr['brace'] + 1
                            k = 0
                            for it in rr['items']:
                                if it['type'] == 'rule':
                                    before = it['end']
                                    continue
                                p = props[k]
                                k += 1
                                after = decl_after(it)
                                exp = {'name': (it['start'], it['name_end']), 'before': before, 'after': after}
                                act = {'name': tuple(p.name), 'before': p.before, 'after': p.after}
                                if it['vs'] is not None:
                                    exp['value'] = (it['vs'], it['ve'])
                                    exp['value_tokens'] = value_tokens(src, it)
                                    act['value'] = tuple(p.value)
                                    act['value_tokens'] = [tuple(x) for x in p.value_tokens]
                                else:
                                    ok = p.value[0] == p.value[1] and it['colon'] < p.value[0] <= (it['semi'] if it['semi'] is not None else rr['close'])
                                    if not ok or list(p.value_tokens):
                                        ctx.violation('property-empty-value', dict(case, decl=it['start']), {'actual': p.to_json()})
                                for key in exp:
                                    if exp[key] != act[key]:
                                        ctx.violation('property-' + key, dict(case, decl=it['start'], nosemi=it['semi'] is None),
                                                      {'expected': exp[key], 'actual': act[key], 'declaration': src[it['start']:it['end']]})
                                ctx.state('declaration', 'tokens=%d %s' % (min(len(it['toks']), 4), 'nosemi' if it['semi'] is None else 'semi'))
                                before = after
        # ---------------- select_item_css
        for is_prev in (False, True):
            ctx.mon('oracle:select_item_css')
            r = core.call(au.select_item_css, arg, pos, is_prev)
            if r[0] == 'exc':
                ctx.violation('exception', dict(case, fn='select_item_css', prev=is_prev), {'exc': list(core.exc_site(r[1]))})
                continue
            m = r[1]
            HELD.keep(m, snap_model, dict(case, prev=is_prev), 'select_item_css')
            if is_prev:
                c = [x for x in models if x[0] < pos]
                e = c[-1] if c else None
            else:
                if any(d['type'] == 'decl' and d['start'] < pos <= (d['vs'] if d['vs'] is not None else decl_after(d)) for d in recs):
                    ctx.mon('select_item_css:not-judged-inside-name')
                    continue
                c = [x for x in models if x[0] >= pos]
                e = c[0] if c else None
            a = (m.start, m.end, [tuple(x) for x in m.ranges]) if m is not None else None
            if a != e:
                ctx.violation('select-css-mismatch', dict(case, prev=is_prev), {'expected': e, 'actual': a})
            elif a is not None:
                ctx.seen(('c', src, pos))
                ctx.state('select-css', 'ranges=%d' % min(len(a[2]), 6))
                if len(ctx.samples) < 2 and len(a[2]) >= 4:
                    ctx.sample({'stylesheet': src[:200], 'pos': pos, 'previous': is_prev, 'model': {'start': a[0], 'end': a[1], 'ranges': a[2]}})


FILLERS = [' @include x;', '@extend .a;', ' b;', '\n@import "x";', ' @include mq(a) ;', 'margin:', ' @debug 1']


def check_css_sanity(src, ctx, au):
    """Stylesheets with colon-less statements (@include x; / @extend .a; / a name still being typed): the statement does not say
    what the helpers return for them, so only what it says about EVERY result is judged - ranges lie inside the text, inside the
    item, and never end before they start."""
    arg = src
    n = len(src)
    for pos in range(n + 1):
        for prev in (False, True):
            ctx.ev('css:position-with-statements')
            ctx.mon('oracle:select_item_css-well-formed')
            r = core.call(au.select_item_css, arg, pos, prev)
            case = {'lang': 'css-statements', 'src': src, 'pos': pos, 'previous': prev}
            if r[0] == 'exc':
                ctx.violation('exception', dict(case, fn='select_item_css'), {'exc': list(core.exc_site(r[1]))})
                continue
            it = r[1]
            if it is None:
                continue
            ok = 0 <= it.start <= it.end <= n and all(it.start <= a <= b <= it.end for a, b in it.ranges)
            if not ok:
                ctx.violation('select-css-malformed', case, {'start': it.start, 'end': it.end, 'ranges': [list(x) for x in it.ranges][:6]})
            else:
                ctx.seen((src, pos, prev))
        r = core.call(au.get_css_section, arg, pos, True)
        if r[0] == 'exc':
            ctx.violation('exception', {'lang': 'css-statements', 'src': src, 'pos': pos, 'fn': 'get_css_section'}, {'exc': list(core.exc_site(r[1]))})
        elif r[1] is not None:
            s = r[1]
            # the two helpers agree on what a declaration is: the NEXT item never lies beyond a declaration the section lists at or after the position
            ahead = [pr for pr in (s.properties or []) if pr.name[0] >= pos]
            nx = core.call(au.select_item_css, arg, pos, False)
            if ahead and nx[0] == 'ok':
                ctx.mon('oracle:next-item-does-not-skip-a-listed-declaration')
                if nx[1] is None or nx[1].start > ahead[0].name[0]:
                    ctx.violation('select-next-skips-a-declaration', {'lang': 'css-statements', 'src': src, 'pos': pos, 'previous': False},
                                  {'listed_declaration_at': list(ahead[0].name), 'next_item': nx[1] and [nx[1].start, nx[1].end]})
            bad = not (0 <= s.start <= s.body_start <= s.body_end <= s.end <= n)
            # `before` of a declaration is where the previous one ended (`after`) when nothing but white space lies between the two
            props = s.properties or []
            for p1, p2 in zip(props, props[1:]):
                if p1.after <= p2.name[0] and not src[p1.after:p2.name[0]].strip() and p2.before != p1.after:
                    ctx.violation('before-is-not-the-end-of-the-previous-declaration', {'lang': 'css-statements', 'src': src, 'pos': pos},
                                  {'previous': [list(p1.name), p1.after], 'this': [list(p2.name), p2.before]})
                    break
            for pr in (s.properties or []):
                if not (pr.name[0] <= pr.name[1] and pr.value[0] <= pr.value[1] and pr.before <= pr.name[0] and pr.value[1] <= pr.after):
                    bad = True
            if bad:
                ctx.violation('section-malformed', {'lang': 'css-statements', 'src': src, 'pos': pos}, {'section': s.to_json()})


def run_shard(desc, ctx):
    from emmet import action_utils as au
    rng = ctx.rng
    for k in range(desc['ndocs']):
        xml = (k % 4 == 2)
        src, recs = gen_html.gen_doc(rng, xml=xml, max_depth=3) if k % 8 != 4 else gen_html.gen_doc(rng, xml=False, max_depth=rng.randint(6, 9), max_children=2, max_top=1)
        if len(src) <= (700 if k % 8 == 4 else 500):
            check_html(src, recs, ctx, au, xml=xml)
        if k % 8 == 5:
            src, recs = gen_css.gen_sheet(rng, allow_nosemi=True, max_top=1, max_depth=rng.randint(5, 8), max_items=2)
        else:
            src, recs = gen_css.gen_sheet(rng, allow_nosemi=True)
        if len(src) <= (700 if k % 8 == 5 else 500):
            check_css(src, recs, ctx, au)
        if k % 3 == 0 and len(src) <= 300:
            # the same sheet with colon-less statements dropped in after declarations and rule starts
            spots = [i + 1 for i, c in enumerate(src) if c in ';{' and not any(r['type'] == 'decl' and r['start'] <= i < (r['semi'] if r['semi'] is not None else r['end']) for r in recs)]
            s2 = src
            for sp in sorted(rng.sample(spots, min(len(spots), rng.randint(1, 3))), reverse=True):
                s2 = s2[:sp] + rng.choice(FILLERS) + s2[sp:]
            check_css_sanity(s2, ctx, au)
        if len(HELD.items) > 150:
            # results kept by the caller are read again after the calls on these documents
            HELD.verify(ctx)
    HELD.verify(ctx)


def replay(case, ctx):
    from emmet import action_utils as au
    if case.get('lang') == 'html':
        # the kept options dictionary has been through documents of the other mode before
        core.call(au.select_item_html, '<p class="a">x</p><script>1<2</script>', 1, False, kept_options(not case.get('xml', False)))
    if case.get('retained'):
        if case['lang'] == 'html':
            check_html(case['src'], gen_html.from_json(case['truth']), ctx, au, xml=case.get('xml', False))
        else:
            check_css(case['src'], C10.from_json(case['truth']), ctx, au)
        HELD.verify(ctx)
        return
    if case['lang'] == 'css-statements':
        check_css_sanity(case['src'], ctx, au)
        return
    if case['lang'] == 'html':
        check_html(case['src'], gen_html.from_json(case['truth']), ctx, au, positions=[case['pos']], xml=case.get('xml', False))
    else:
        check_css(case['src'], C10.from_json(case['truth']), ctx, au, positions=[case['pos']])


CLASSIFIERS = {}
