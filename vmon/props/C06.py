"""C06 - a stylesheet snippet is always reachable by its own key.

Refuting events: expand(key) is not (semantically) the snippet's own first value / body;
a dash-free keyword typed in full after the key does not resolve to itself; a user snippet
is not reachable / does not override; a scope lets the wrong kind of snippet through."""
import re

from .. import core, hostile, probes

ID = 'C06'
RULE = ('whole-table check: every key of the built-in stylesheet table (raw table read by the harness) x 6 syntaxes x scopes none/@@global/@@section/@@property/'
        '@@value/property-name; every dash-free single-word keyword of every property snippet typed as key:WORD in lower/upper/title case; keyword typed in the '
        'value scope of its property; random user tables of 1-8 entries (overriding and new keys, property- and raw-typed, no two keys equal ignoring case). '
        'Non-trivial = the key has a value / body or a keyword is typed; distinct by (key or table, syntax, scope)')
ASSUMPTIONS = [               'quoted strings in user alternatives contain no escaped quote (the abbreviation syntax has no escape inside a string: a snippet value is an abbreviation value)',
               'expected text is derived from emmet/snippets/css.py split on "|" by the harness; a value of the form name or name:values is a property snippet, anything else raw',
               'both sides are normalised: tabstops ${n:ph} -> ph, blank runs collapsed, 1.0 == 1, colours compared by value',
               'under @@section a property key may give nothing or a raw body (fuzzy match), under @@property the converse; only "must not give its own line" is judged',
               'value-scope keywords are checked for properties with a single built-in snippet',
               'a per-syntax `cache` dict is used for 39 of 40 calls (snippet conversion costs 6 ms); every second user table goes through one cache dict shared by all tables and scopes of the shard']
FLOORS = {'quick': {'scope-pair': 2500, 'key': 2700, 'keyword': 1500, 'scope': 5000, 'user-table': 1500, 'user-table:bystander': 600}, 'thorough': {'scope-pair': 2500, 'key': 2700, 'keyword': 1500, 'scope': 5000, 'user-table': 40000, 'user-table:bystander': 7000}}
REQUIRED_MONITORS = ['oracle:key-reaches-snippet', 'oracle:keyword', 'oracle:scope', 'oracle:user-table', 'oracle:builtin-key-beside-user-table']
SYNTAXES = ['css', 'scss', 'less', 'sss', 'sass', 'stylus']
FMT = {'css': (': ', ';'), 'scss': (': ', ';'), 'less': (': ', ';'), 'sss': (': ', ';'), 'sass': (': ', ''), 'stylus': (' ', '')}
RE_PROP = re.compile(r'^([a-z-]+)(?:\s*:\s*([^\n\r;]+?);*)?$')
NTABLES = {'quick': 260, 'thorough': 3200}


def describe(tier):
    return {'exhaustive': True, 'bounds': {'built_in_keys': 'all', 'syntaxes': SYNTAXES, 'scopes': 6, 'keyword_spellings': 'lower/upper/title',
                                           'user_tables_per_shard': NTABLES[tier], 'note': 'built-in table exhaustive; user tables sampled'}}


def raw_table():
    from emmet.snippets.css import snippets as raw
    tbl = {}
    for k, v in raw.items():
        for kk in k.split('|'):
            tbl[kk] = v
    return tbl


def field(index, placeholder, **kw):
    return '⟦%d:%s⟧' % (index, placeholder)


RE_MARK = re.compile('⟦(\\d+):(.*?)⟧', re.S)


def unwrap(s):
    prev = None
    while prev != s:
        prev = s
        s = RE_MARK.sub(lambda m: m.group(2), s)
    return s


def strip_fields(s):
    prev = None
    while prev != s:
        prev = s
        s = re.sub(r'\$\{\d+(?::([^{}]*))?\}', lambda m: m.group(1) or '', s)
    return s


def colour_norm(m):
    h = m.group(1).lower()
    if len(h) == 3:
        h = ''.join(c * 2 for c in h)
    return '#' + h


def norm(s):
    s = strip_fields(unwrap(s))
    s = re.sub(r'\s+', ' ', s.strip())
    s = re.sub(r'(?<![\w.#])(\d+)\.0+(?!\d)', r'\1', s)
    s = re.sub(r'#([0-9a-fA-F]{6}|[0-9a-fA-F]{3})\b', colour_norm, s)
    s = re.sub(r'\s*,\s*', ', ', s)
    s = re.sub(r'\(\s+', '(', s)
    s = re.sub(r'\s+\)', ')', s)
    return s


def classify(value):
    m = RE_PROP.match(value)
    if m:
        alts = m.group(2).split('|') if m.group(2) else []
        return ('property', m.group(1), alts)
    return ('raw', None, value)


def expected_line(value, syntax):
    kind, prop, rest = classify(value)
    between, after = FMT[syntax]
    if kind == 'property':
        return 'property', norm(prop + between + (rest[0] if rest else '') + after), prop
    return 'raw', norm(rest), None


class Mon:
    def __init__(self, ctx):
        import emmet
        self.ctx = ctx
        self.expand = hostile.wrap(emmet.expand, ctx)
        self.caches = {}
        self.n = 0

    def run(self, abbr, syntax, context=None, snippets=None, cache_key=None):
        cfg = {'type': 'stylesheet', 'syntax': syntax, 'options': {'output.field': field}}
        if context:
            cfg['context'] = context
        if snippets is not None:
            cfg['snippets'] = snippets
        self.n += 1
        if self.n % 40:
            cfg['cache'] = self.caches.setdefault((syntax, cache_key), {})
        return core.call(self.expand, abbr, cfg)

    def key_case(self, key, value, syntax, scope, cls):
        ctx = self.ctx
        ctx.ev(cls)
        kind, exp, prop = expected_line(value, syntax)
        context = {'name': scope} if scope else None
        case = {'kind': 'key', 'key': key, 'value': value, 'syntax': syntax, 'scope': scope}
        r = self.run(key, syntax, context)
        if r[0] == 'exc':
            ctx.violation('exception', case, {'exc': list(core.exc_site(r[1])), 'msg': str(r[1])[:100]})
            return
        out = r[1]
        got = norm(out)
        if scope in (None, '@@global'):
            ctx.mon('oracle:key-reaches-snippet')
            if got != exp:
                ctx.violation('key-does-not-reach-snippet', case, {'expected': exp, 'actual': got, 'raw_output': out[:200]})
                return
            if kind == 'property' and not classify(value)[2] and not RE_MARK.search(out):
                ctx.violation('tabstop-missing', case, {'raw_output': out[:200]})
                return
            if value:
                ctx.seen((key, syntax, scope))
            ctx.state('snippet-kind', kind + (':novalue' if kind == 'property' and not classify(value)[2] else ''))
            if len(ctx.samples) < 3 and kind == 'property' and '${' in value:
                ctx.sample({'key': key, 'snippet': value, 'syntax': syntax, 'output': out})
            return
        ctx.mon('oracle:scope')
        if scope == '@@section':
            if kind == 'raw' and got != exp:
                ctx.violation('scope-section-raw-unreachable', case, {'expected': exp, 'actual': got})
            elif kind == 'property' and got == exp:
                ctx.violation('scope-section-lets-property-through', case, {'actual': got})
        elif scope == '@@property':
            if kind == 'property' and got != exp:
                ctx.violation('scope-property-unreachable', case, {'expected': exp, 'actual': got})
            elif kind == 'raw' and got == exp and exp:
                ctx.violation('scope-property-lets-raw-through', case, {'actual': got})
        else:
            # value scope: no snippet line at all
            if got == exp and exp:
                ctx.violation('value-scope-produces-snippet-line', case, {'actual': got})
        ctx.state('scope', '%s/%s' % (scope, kind))

    def keyword_case(self, key, prop, word, spelled, syntax, cls, value_scope=False):
        ctx = self.ctx
        ctx.ev(cls)
        between, after = FMT[syntax]
        case = {'kind': 'keyword', 'key': key, 'property': prop, 'keyword': word, 'typed': spelled, 'syntax': syntax, 'value_scope': value_scope}
        ctx.mon('oracle:keyword')
        if value_scope:
            r = self.run(spelled, syntax, {'name': prop})
            exp = word
        else:
            r = self.run('%s:%s' % (key, spelled), syntax)
            exp = norm(prop + between + word + after)
        if r[0] == 'exc':
            ctx.violation('exception', case, {'exc': list(core.exc_site(r[1])), 'msg': str(r[1])[:100]})
            return
        got = norm(r[1])
        if got != exp:
            ctx.violation('keyword-not-resolved', case, {'expected': exp, 'actual': got})
            return
        ctx.seen((key, spelled, syntax, value_scope))


D2_VALUES = ['calc(100% - 20px)', 'a - b', '0 auto!important', 'url(http://a.b/c.png)', '#abcd', 'min(10px, 5vw - 1px)']


def user_table(rng, builtin_keys):
    n = rng.randint(1, 8) if rng.random() < 0.9 else rng.randint(12, 40)
    tbl = {}
    used = set()
    for i in range(n):
        r0 = rng.random()
        if r0 < 0.35:
            k = rng.choice(builtin_keys)
        elif r0 < 0.55:
            # a new key that extends a built-in one (doubled last letter, extra letters): the fuzzy search sees both
            b = rng.choice(builtin_keys)
            k = b + rng.choice([b[-1], b[-1] * 2, rng.choice('abcdefgmprstwxz'), b[-1] + rng.choice('abcdpst')])
        else:
            k = ''.join(rng.choice('abcdefghklmnopqrstuvwxz') for _ in range(rng.randint(1, 4) if rng.random() < 0.9 else rng.randint(7, 14)))
            if rng.random() < 0.1:
                k = '@' + k
        if rng.random() < 0.15:
            # the same letters in another case are ANOTHER key (of a built-in snippet, or of a user snippet written before): typed exactly, each selects its own snippet
            b = rng.choice(sorted(tbl) or builtin_keys) if rng.random() < 0.3 else rng.choice(builtin_keys)
            k = rng.choice([b.upper(), b.title(), b[:-1] + b[-1].upper(), b[0] + b[1:].upper()])
        if k in used:
            continue
        used.add(k)
        r = rng.random()
        tag = 'u%s' % ('abcdefgh'[i] if i < 8 else 'x' + 'abcdefghijklmnopqrstuvwxyz'[i % 26] + 'abcdefghijklmnopqrstuvwxyz'[i // 26])
 
        pre = rng.choice(['vp-', 'vp-', '--vp-', '-webkit-vp-', 'vp--', '-vp-'])      # custom properties and vendor prefixes are property names too
        if r < 0.35:
            v = pre + '%s:%s' % (tag, '|'.join(rng.sample(['foo', 'bar', 'baz-qux', '${1:ph}', '10px', 'a b', '#fc0', '"Helvetica Neue", Arial, sans-serif', "'x y' z", '"\\f101"', '"q" "r"',
                                                          'repeat(auto-fill, minmax(${1:200px}, 1fr))', 'image-set(url(${1:a}) 1x)', 'f(g(h(${1:x})), k)', 'min(1px, max(2px, 3px))',
                                                          'url(a.png) no-repeat', 'x.y z', 'rgb(0,0,0)', 'u(v.w)'], rng.randint(1, 3))))
        elif r < 0.55:
            v = pre + tag
        elif r < 0.8:
            ph = ['x', ':hover', '::before', 'a:b', 'http://x.y/z', '-x', '#fc0', '1.5', 'p q', '.c', '!', '0', 'X', '@m']
            v = rng.choice(['raw %s ${1:%s} body ${2}', '%s${1:%s} {\n\t${2}\n}', 'raw %s ${2:%s} then ${1}', 'raw %s${1:%s}${2:z}',
                            # a raw multi-declaration snippet that BEGINS like a property with a long vendor-prefixed name (a near miss of the property pattern)
                            '-webkit-transition-timing-function-%s: ${1:%s}; transition-timing-function: ${2}',
                            '-webkit-border-bottom-right-radius-%s: ${1:%s}; border-bottom-right-radius: ${1}']) % (tag, rng.choice(ph))
        else:
            v = '@%s {\n\t${0}\n}' % tag
        tbl[k] = v
    if rng.random() < 0.06:
        # D2: a first value that the abbreviation value grammar re-reads (a `-` between blanks, `!` inside a value, a colon inside url(), a 4-digit colour): open finding
        tbl['dtwo'] = 'vp-dtwo:' + rng.choice(D2_VALUES)
    return tbl


def shards(tier, seed):
    out = [{'kind': 'table', 'syntax': s} for s in SYNTAXES]
    out += [{'kind': 'keywords', 'part': p, 'nparts': 3} for p in range(3)]
    n = 4 if tier == 'quick' else 12
    out += [{'kind': 'user', 'n': NTABLES[tier]} for _ in range(n)]
    return out


def run_shard(desc, ctx):
    mon = Mon(ctx)
    tbl = raw_table()
    pr = probes.Probes().add('emmet.stylesheet:find_best_match').add('emmet.stylesheet:resolve_as_property').add('emmet.stylesheet:wrap_with_field') \
        .add('emmet.stylesheet:resolve_as_snippet').add('emmet.stylesheet:resolve_keyword').add('emmet.stylesheet.snippets:nest').install()
    try:
        if desc['kind'] == 'table':
            syntax = desc['syntax']
            for key, value in sorted(tbl.items()):
                for scope in (None, '@@global', '@@section', '@@property', '@@value', 'padding'):
                    mon.key_case(key, value, syntax, scope, 'key' if scope in (None, '@@global') else 'scope')
            # a keyword that is a function, typed once WITH arguments and once in full: the second mention is the listed keyword again, whatever was
            # typed before it - in the same abbreviation or in an earlier call through the same cache
            for key, value in sorted(tbl.items()):
                kind, prop, alts = classify(value)
                if kind != 'property':
                    continue
                for alt in alts:
                    m = re.match(r'([a-z]+)\(', alt)
                    if not m or not re.fullmatch(r'[a-z]+', key):
                        continue
                    fn = m.group(1)
                    ctx.ev('keyword:function-twice')
                    ctx.mon('oracle:keyword')
                    alone = mon.run('%s:%s' % (key, fn), syntax)
                    both = mon.run('%s:%s(2)+%s:%s' % (key, fn, key, fn), syntax)
                    again = mon.run('%s:%s' % (key, fn), syntax)
                    case = {'kind': 'function-twice', 'key': key, 'function': fn, 'syntax': syntax}
                    if alone[0] != 'ok' or both[0] != 'ok' or again[0] != 'ok':
                        continue        # (a keyword the grammar cannot take: judged elsewhere)
                    second = both[1].split('\n')[-1] if '\n' in both[1] else None
                    if second is not None and norm(second) != norm(alone[1]):
                        ctx.violation('keyword-changed-by-an-earlier-mention', case, {'alone': norm(alone[1]), 'second_of_two': norm(second)})
                    elif norm(again[1]) != norm(alone[1]) or RE_MARK.findall(again[1]) != RE_MARK.findall(alone[1]):
                        ctx.violation('keyword-changed-by-an-earlier-call', case, {'before': alone[1][:120], 'after': again[1][:120]})
                    break
            # a scope restricts EVERY property of an abbreviation alike: two keys of the permitted kind joined by `+` give their two lines
            # (the second key before, equal to and after the first in sort order)
            by_kind = {'property': [], 'raw': []}
            for key, value in sorted(tbl.items()):
                if key != 'lg' and value and '+' not in key:
                    by_kind[classify(value)[0]].append(key)
            for kind, scope in (('property', '@@property'), ('raw', '@@section'), ('property', None)):
                keys = by_kind[kind]
                for i, k1 in enumerate(keys):
                    for k2 in {keys[(i * 7 + 3) % len(keys)], k1, keys[i - 1]}:
                        ctx.ev('scope-pair')
                        ctx.mon('oracle:scope')
                        e1, e2 = expected_line(tbl[k1], syntax)[1], expected_line(tbl[k2], syntax)[1]
                        case = {'kind': 'pair', 'keys': [k1, k2], 'syntax': syntax, 'scope': scope}
                        r = mon.run(k1 + '+' + k2, syntax, {'name': scope} if scope else None)
                        if r[0] == 'exc':
                            ctx.violation('exception', case, {'exc': list(core.exc_site(r[1])), 'msg': str(r[1])[:100]})
                        elif norm(r[1]) != norm(e1 + '\n' + e2):
                            ctx.violation('scope-pair-differs-from-its-two-lines', case, {'expected': norm(e1 + '\n' + e2), 'actual': norm(r[1])})
        elif desc['kind'] == 'keywords':
            props = {}
            for key, value in tbl.items():
                k, prop, alts = classify(value)
                if k == 'property':
                    props.setdefault(prop, []).append(key)
            i = 0
            for key, value in sorted(tbl.items()):
                k, prop, alts = classify(value)
                if k != 'property':
                    continue
                for alt in alts:
                    if not re.fullmatch(r'[a-z]+', alt):
                        continue
                    for form in (alt, alt.upper(), alt.title()):
                        i += 1
                        if i % desc['nparts'] != desc['part']:
                            continue
                        mon.keyword_case(key, prop, alt, form, SYNTAXES[i % 6], 'keyword')
                        if len(props[prop]) == 1:
                            mon.keyword_case(key, prop, alt, form, SYNTAXES[(i + 1) % 6], 'keyword', value_scope=True)
        else:
            rng = ctx.rng
            builtin = sorted(tbl)
            shared = 'one cache for every table of this shard'
            for t in range(desc['n']):
                ut = user_table(rng, builtin)
                syntax = rng.choice(SYNTAXES)
                for key, value in ut.items():
                    ctx.ev('user-table')
                    ctx.mon('oracle:user-table')
                    kind, exp, prop = expected_line(value, syntax)
                    case = {'kind': 'user', 'table': ut, 'key': key, 'syntax': syntax}
                    if key == 'dtwo':
                        case['domain'] = 'd2'
                        ctx.ev('user-table:d2')
                    # odd tables go through ONE cache dict shared by all tables and scopes of the shard (a cache never changes a result)
                    ck = shared if t % 2 else repr(sorted(ut.items()))
                    case['shared_cache'] = bool(t % 2)
                    r = mon.run(key, syntax, None, ut, cache_key=ck)
                    if r[0] == 'exc':
                        ctx.violation('exception', case, {'exc': list(core.exc_site(r[1])), 'msg': str(r[1])[:100]})
                        continue
                    got = norm(r[1])
                    if got != exp:
                        ctx.violation('user-snippet-unreachable', case, {'expected': exp, 'actual': got, 'overrides_builtin': key in tbl})
                    else:
                        ctx.seen((repr(sorted(ut.items())), key, syntax))
                        ctx.state('user', '%s %s' % (kind, 'override' if key in tbl else 'new'))
                        alts = classify(value)[2] if kind == 'property' else []
                        if alts and '${' in alts[0]:
                            # "its first listed value": a value that carries tabstops of its own comes out with exactly those
                            want = [m or '' for m in re.findall(r'\$\{\d+(?::([^{}]*))?\}', alts[0])]
                            have = [m[1] for m in RE_MARK.findall(r[1])]
                            ctx.mon('oracle:own-tabstops-of-first-value')
                            if have != want:
                                ctx.violation('first-value-tabstops-differ', case, {'written': want, 'printed': have, 'output': r[1][:200]})
                    # scope restriction on user snippets too
                    if t % 4 < 2:
                        ctx.mon('oracle:scope')
                        sc = '@@section' if kind == 'property' else '@@property'
                        r2 = mon.run(key, syntax, {'name': sc}, ut, cache_key=ck)
                        if r2[0] == 'ok' and norm(r2[1]) == exp and exp:
                            ctx.violation('scope-lets-wrong-kind-through', dict(case, scope=sc), {'actual': norm(r2[1])})
                        # and the permitted kind stays reachable under its scope
                        sc2 = '@@property' if kind == 'property' else '@@section'
                        r3 = mon.run(key, syntax, {'name': sc2}, ut, cache_key=ck)
                        if r3[0] == 'ok' and norm(r3[1]) != exp:
                            ctx.violation('user-snippet-unreachable-under-its-scope', dict(case, scope=sc2), {'expected': exp, 'actual': norm(r3[1])})
                # "and no other": built-in keys the table does not mention still select their built-in snippets (those that differ from a user key only in letter case first)
                low = {k.lower() for k in ut}
                near = [b for b in builtin if b not in ut and b.lower() in low and b != 'lg']
                for key in (near + rng.sample(builtin, 2))[:3]:
                    if key in ut or key == 'lg':
                        continue
                    ctx.ev('user-table:bystander')
                    ctx.mon('oracle:builtin-key-beside-user-table')
                    kind, exp, prop = expected_line(tbl[key], syntax)
                    r = mon.run(key, syntax, None, ut, cache_key=ck)
                    case = {'kind': 'bystander', 'table': ut, 'key': key, 'syntax': syntax}
                    if r[0] == 'exc':
                        ctx.violation('exception', case, {'exc': list(core.exc_site(r[1])), 'msg': str(r[1])[:100]})
                    elif norm(r[1]) != exp:
                        ctx.violation('builtin-key-lost-beside-user-table', case, {'expected': exp, 'actual': norm(r[1]), 'case_variant_in_table': key in near})
                    else:
                        ctx.state('bystander', 'case-variant' if key in near else 'plain')
                # the snippet cache of this table is not needed any more
                mon.caches = {k: v for k, v in mon.caches.items() if k[1] is None or k[1] == shared}
    finally:
        pr.uninstall()
    for k, v in pr.reach().items():
        ctx.mon('reach:' + k, v)


def replay(case, ctx):
    mon = Mon(ctx)
    if case['kind'] == 'key':
        mon.key_case(case['key'], case['value'], case['syntax'], case['scope'], 'replay')
    elif case['kind'] == 'keyword':
        mon.keyword_case(case['key'], case['property'], case['keyword'], case['typed'], case['syntax'], 'replay', case['value_scope'])
    elif case['kind'] == 'pair':
        ctx.ev('replay')
        tbl = raw_table()
        k1, k2 = case['keys']
        e1, e2 = expected_line(tbl[k1], case['syntax'])[1], expected_line(tbl[k2], case['syntax'])[1]
        r = mon.run(k1 + '+' + k2, case['syntax'], {'name': case['scope']} if case['scope'] else None)
        if r[0] == 'exc':
            ctx.violation('exception', case, {'exc': list(core.exc_site(r[1]))})
        elif norm(r[1]) != norm(e1 + '\n' + e2):
            ctx.violation('scope-pair-differs-from-its-two-lines', case, {'expected': norm(e1 + '\n' + e2), 'actual': norm(r[1])})
    elif case['kind'] == 'bystander':
        ctx.ev('replay')
        kind, exp, prop = expected_line(raw_table()[case['key']], case['syntax'])
        r = mon.run(case['key'], case['syntax'], None, case['table'])
        if r[0] == 'exc':
            ctx.violation('exception', case, {'exc': list(core.exc_site(r[1]))})
        elif norm(r[1]) != exp:
            ctx.violation('builtin-key-lost-beside-user-table', case, {'expected': exp, 'actual': norm(r[1])})
    else:
        ut = case['table']
        kind, exp, prop = expected_line(ut[case['key']], case['syntax'])
        ctx.ev('replay')
        r = mon.run(case['key'], case['syntax'], {'name': case['scope']} if case.get('scope') else None, ut)
        if r[0] == 'exc':
            ctx.violation('exception', case, {'exc': list(core.exc_site(r[1]))})
        elif case.get('scope'):
            if norm(r[1]) == exp and exp:
                ctx.violation('scope-lets-wrong-kind-through', case, {'actual': norm(r[1])})
        elif norm(r[1]) != exp:
            ctx.violation('user-snippet-unreachable', case, {'expected': exp, 'actual': norm(r[1])})


def _gradient(rec):
    """The gradient shortcut is resolved from the hard-coded name `lg` before any snippet lookup, so
    neither a user table entry under `lg` nor the @@section scope can affect it.  Explains only
    violations whose key is `lg` and whose wrong result is the built-in gradient line."""
    c = rec['case']
    if c.get('key') != 'lg':
        return False
    if rec['kind'] in ('user-snippet-unreachable', 'user-snippet-unreachable-under-its-scope'):
        return 'linear-gradient(' in str(rec['detail'].get('actual'))
    if rec['kind'] in ('scope-section-lets-property-through', 'scope-lets-wrong-kind-through'):
        return 'linear-gradient(' in str(rec['detail'].get('actual'))
    return False


def _regrammar(rec):
    """The value of a snippet is read with the abbreviation's own value grammar, in which `-` and `:` separate values, `!` is the important mark and
    `#` opens a 1/2/3/6-digit colour: a first value that uses those characters differently (calc arithmetic, `!important` inside, a URL with a scheme, a
    4-digit colour) is not reproduced.  Explains only the D2 key (whose value is drawn from such values) when the library's output still names the
    snippet's property - a wrong property, a missing line or an exception there is reported."""
    c = rec['case']
    if c.get('domain') != 'd2' or rec['kind'] not in ('user-snippet-unreachable', 'user-snippet-unreachable-under-its-scope'):
        return False
    return str(rec['detail'].get('actual', '')).startswith('vp-dtwo')


CLASSIFIERS = {'C06-gradient-shortcut-bypasses-snippet-table': _gradient, 'C06-snippet-value-reread-by-the-abbreviation-grammar': _regrammar}
