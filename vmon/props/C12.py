"""C12 - formatting options are cosmetic and indentation equals nesting depth.

Refuting events: two expansions of one abbreviation under different formatting options whose
tag / attribute / text streams differ; comments that change anything but comment text; a
self-closing style that changes more than the ` /` or `/` before `>`; a line whose leading
whitespace is not baseIndent + indent x (elements open at that point)."""
from .. import core, gen_abbr, hostile, outparse, probes, stretch

ID = 'C12'
RULE = ('cases = (abbreviation, syntax, formatting option set): generated abbreviations (elements, groups, climbs, repeaters, ids/classes/attributes, single- and '
        'multi-line text, inline / block / void / snippet names, xsl:variable) x html/xml/xsl/jsx/vue/svelte; each compared with the unformatted baseline under '
        '(a) random output.* formatting options, (b) comments enabled, (c) each self-closing style; plus the depth rule on every output line with formatSkip=[]. '
        'Non-trivial = at least two elements; distinct by (abbreviation, syntax, option set)')
ASSUMPTIONS = ['D1: an element with children carries single-line, field-free text (a value with ${n} fields plus children is the snippet feature that puts the children at the field); D2 = separate cases with a multi-line text AND children on one element, built to hit the recorded finding',
               'text is compared modulo blank runs (formatting may re-indent text lines); free-standing text nodes are not generated',
               'attribute-related options stay at their defaults here (C03 owns them)',
               'depth rule: selfClosingStyle html with the void names of the built-in snippets (img br input hr meta link) not counted as open']
FLOORS = {'quick': {'format-pair': 15000, 'comment-pair': 15000, 'selfclose-pair': 30000, 'depth-rule': 15000, 'depth-rule:d2': 800},
          'thorough': {'format-pair': 700000, 'comment-pair': 700000, 'selfclose-pair': 1400000, 'depth-rule': 700000, 'depth-rule:d2': 40000}}
REQUIRED_MONITORS = ['oracle:stream-equal-format', 'oracle:stream-equal-comments', 'oracle:stream-equal-selfclose', 'oracle:indent-equals-depth', 'oracle:one-tree-printed-three-times']
N = {'quick': 1500, 'thorough': 48000}
SYNTAXES = ['html', 'xml', 'xsl', 'jsx', 'vue', 'svelte']
VOID = {'img', 'br', 'input', 'hr', 'meta', 'link'}
NAMES = ['div', 'p', 'span', 'em', 'ul', 'li', 'section', 'b', 'x-y', 'table', 'tr', 'td', 'body', 'h1', 'a', 'img', 'br', 'input', 'label', 'select',
         'xsl:variable', 'xsl:with-param', 'html', 'i', 'strong', 'article', 'header', 'hr', 'ns:t', 'code', 'small', 'blockquote']
TEXTS = ['t1', 'hello world', 'l1\nl2', 'x ${1:ph} y', '${2}', 'a\nbb\nccc', 'tail ', ' lead', 'a  b', 'c1\rc2', 'w1\r\nw2\r\nw3', 'm1\n\nm3',
         'Dear ${1:name},\nthank you', '${1}\nfoo', 'a ${2:b}\r\nc ${1}', '${1:x}${2:y}\nz']
ATTRS = ['[d1=v1]', '[d2="v 2"]', '[select=q name="n m"]', '[k]', '[title=x]', "[e='s']"]


def describe(tier):
    return {'exhaustive': False, 'bounds': {'abbreviations_per_shard': N[tier], 'syntaxes': SYNTAXES, 'max_depth': 3}}


def shards(tier, seed):
    n = 12 if tier == 'quick' else 16
    return [{'n': N[tier]} for _ in range(n)]


LEAF_TEXTS = TEXTS
PARENT_TEXTS = ['t1', 'hello world', 'tail ', ' lead', 'a  b']      # D1: an element with children carries single-line, field-free text


FIELD_PARENT_TEXTS = ['a ${1:one} b', 'before ${1:one}${2:two} after', '${1}', 'x ${2:p}${1:q}${3} y', '${1:one} ${2:two}', 'pre ${0}']


def gen_abbr_case(rng, d2=False, field_parents=False, flags=None):
    flags = flags if flags is not None else {}
    """D1: documented grammar.  D2 (separate cases): at least one element that has BOTH a multi-line text
    and children - built to hit the recorded finding, never mixed into D1."""
    tree = gen_abbr.gen_tree(rng, names=NAMES, p_text=0.25, texts=TEXTS, attrs=ATTRS, p_attr=0.3, p_class=0.3, p_id=0.2, p_nameless=0.08,
                             p_group=0.15, p_rep=0.15, max_rep=3, classes=['c1', 'c2', 'c3'], ids=['i1', 'i2', 'i3'],
                             **(dict(max_depth=rng.choice([2, 3, 3, 4, 5]), max_children=rng.choice([2, 3])) if rng.random() < 0.9 else
                                dict(max_depth=rng.choice([8, 10, 12]), max_children=rng.choice([1, 2]), p_children=0.92)))
    if gen_abbr.depth_of(tree) > 6:
        gen_abbr.thin_reps(tree, rng)
    parents = []

    def fix(nodes):
        for n in nodes:
            if n.kind == 'e' and n.name in VOID:
                n.children = []     # void snippet names cannot take children or text in a meaningful way
                n.text = None
            if n.kind == 'e' and n.children:
                parents.append(n)
                if n.text is not None:
                    if field_parents and rng.random() < 0.5:
                        # the snippet feature: children are placed at the first field of the value (content oracles only, no depth rule)
                        n.text = rng.choice(FIELD_PARENT_TEXTS)
                        flags['field_parent'] = True
                    else:
                        n.text = rng.choice(PARENT_TEXTS)
            fix(n.children)
    fix(tree)
    if d2:
        if not parents:
            return None
        rng.choice(parents).text = rng.choice(['l1\nl2', 'a\nbb\nccc', 'c1\rc2', 'w1\r\nw2'])
    return gen_abbr.write(tree, rng)[0]


def rand_format_opts(rng):
    return {'output.format': rng.random() < 0.9, 'output.indent': rng.choice(['\t', '  ', '    ', '']), 'output.baseIndent': rng.choice(['', '  ', '\t']),
            'output.newline': rng.choice(['\n', '\r\n']), 'output.inlineBreak': rng.choice([0, 1, 2, 3, 5]), 'output.formatLeafNode': rng.random() < 0.2,
            'output.formatForce': rng.choice([[], ['body'], ['p', 'li']]), 'output.formatSkip': rng.choice([[], ['html'], ['div', 'ul']])}


def content(out, drop_comments):
    st = outparse.tag_stream(out)
    res = []
    for t in outparse.content_stream(st, drop_comments):
        if t[0] == 'open':
            res.append(['open', t[1], [list(a) for a in t[2]], t[3]])
        else:
            res.append(list(t))
    return res


def no_closer(stream):
    return [[t[0], t[1], t[2]] if t[0] == 'open' else t for t in stream]


def visible_field(index, placeholder, **kw):
    return '⟦%s⟧' % placeholder


class Mon:
    def __init__(self, ctx):
        import emmet
        self.ctx = ctx
        self.expand = hostile.wrap(emmet.expand, ctx)

    def run(self, abbr, syntax, opts):
        o = dict(opts)
        o['output.field'] = visible_field       # an empty tabstop must stay visible in the content stream
        return core.call(self.expand, abbr, {'syntax': syntax, 'options': o})

    def check(self, abbr, syntax, fopts, copts, dopts, d2=False, skip_depth=False):
        ctx = self.ctx
        case = {'abbr': abbr, 'syntax': syntax, 'format_options': fopts, 'comment_options': copts, 'depth_options': dopts, 'd2': d2, 'skip_depth': skip_depth}
        rb = self.run(abbr, syntax, {'output.format': False})
        if rb[0] == 'exc':
            ctx.ev('baseline-error')
            ctx.violation('exception', dict(case, which='baseline'), {'exc': list(core.exc_site(rb[1])), 'msg': str(rb[1])[:100]})
            return
        try:
            sb = content(rb[1], True)
        except outparse.OutParseError as e:
            ctx.violation('unparseable-output', dict(case, which='baseline'), {'output': rb[1][:300], 'parser': str(e)})
            return
        nontrivial = sum(1 for t in sb if t[0] == 'open') >= 2

        def variant(opts, which, mon, drop_comments=True, ignore_closer=False):
            ctx.ev(which)
            ctx.mon(mon)
            r = self.run(abbr, syntax, opts)
            if r[0] == 'exc':
                ctx.violation('exception', dict(case, which=which), {'exc': list(core.exc_site(r[1])), 'msg': str(r[1])[:100]})
                return None
            try:
                sv = content(r[1], drop_comments)
            except outparse.OutParseError as e:
                ctx.violation('unparseable-output', dict(case, which=which), {'output': r[1][:300], 'parser': str(e)})
                return None
            a, b = (no_closer(sb), no_closer(sv)) if ignore_closer else (sb, sv)
            if a != b:
                i = next((k for k, (x, y) in enumerate(zip(a, b)) if x != y), min(len(a), len(b)))
                ctx.violation('content-differs:' + which, dict(case, which=which),
                              {'first_difference_at': i, 'baseline': a[i:i + 3], 'variant': b[i:i + 3], 'baseline_output': rb[1][:300], 'variant_output': r[1][:300]})
                return None
            if nontrivial:
                ctx.seen((abbr, syntax, which, repr(sorted(opts.items(), key=repr))))
            return r[1]

        fo = variant(fopts, 'format-pair', 'oracle:stream-equal-format')
        variant(copts, 'comment-pair', 'oracle:stream-equal-comments')
        if fo is not None and ctx.counts['format-pair'] % 4 == 0:
            # the same options on ONE parsed tree through the public two-step route, printed under the comment options, under the
            # format options, and unformatted: a formatter that leaves marks in the tree it prints shows only here
            import emmet
            from emmet.config import Config
            ctx.mon('oracle:one-tree-printed-three-times')

            def three():
                mk = lambda o: Config({'syntax': syntax, 'options': dict(o, **{'output.field': visible_field})})
                c1, c2, c3 = mk(copts), mk(fopts), mk({'output.format': False})
                tree = emmet.markup_abbreviation(abbr, c2)
                return [emmet.stringify_markup(tree, c) for c in (c1, c2, c3)]
            r3 = core.call(three)
            if r3[0] == 'exc':
                ctx.violation('exception', dict(case, which='one tree printed three times'), {'exc': list(core.exc_site(r3[1]))})
            elif r3[1][1] != fo or r3[1][2] != rb[1]:
                ctx.violation('tree-changed-by-printing', dict(case, which='one tree printed three times'),
                              {'format_options_fresh': fo[:200], 'format_options_reused_tree': r3[1][1][:200], 'unformatted_fresh': rb[1][:200], 'unformatted_reused_tree': r3[1][2][:200]})
        closers = {}
        for style in ('xhtml', 'xml'):
            o = variant({'output.format': False, 'output.selfClosingStyle': style}, 'selfclose-pair', 'oracle:stream-equal-selfclose', ignore_closer=True)
            if o is not None:
                closers[style] = [t[3] for t in outparse.tag_stream(o) if t[0] == 'open']
                try:
                    # with explicit self-closing marks every element is closed: the output nests without any void-name knowledge
                    outparse.tree_from_stream(outparse.tag_stream(o))
                except outparse.OutParseError as e:
                    ctx.violation('self-closing-mark-missing', dict(case, which='selfclose-pair', style=style), {'why': str(e), 'output': o[:300]})
        if len(closers) == 2:
            # the same elements are self-closed under both styles, each spelled the style's way
            want = {'xhtml': ' /', 'xml': '/'}
            ok = [bool(c) for c in closers['xhtml']] == [bool(c) for c in closers['xml']] and \
                all(c in ('', want[st]) for st in closers for c in closers[st])
            if not ok:
                ctx.violation('self-closing-marks-differ', dict(case, which='selfclose-pair'), {'xhtml': closers['xhtml'][:30], 'xml': closers['xml'][:30]})
        out = variant(dopts, 'depth-rule', 'oracle:indent-equals-depth')
        if out is not None:
            why = None if skip_depth else depth_rule(out, dopts)
            if why:
                ctx.violation('indent-not-depth', dict(case, which='depth-rule'), {'why': why[0], 'shape': why[1], 'output': out[:500]})
            if d2:
                ctx.ev('depth-rule:d2')
            elif len(ctx.samples) < 2 and out.count(dopts['output.newline']) >= 5:
                ctx.sample({'abbreviation': abbr, 'syntax': syntax, 'options': dopts, 'output': out[:400]})


def depth_rule(out, opts):
    nl = opts['output.newline']
    indent = opts['output.indent']
    base = opts['output.baseIndent']
    lines = out.split(nl)
    stack = []
    prev_text_only = False
    for li, line in enumerate(lines):
        body = line
        if li > 0:
            if not line.startswith(base):
                return ('line %d does not start with baseIndent: %r' % (li, line), {})
            body = line[len(base):]
        k = 0
        if indent:
            while body.startswith(indent):
                body = body[len(indent):]
                k += 1
        try:
            toks = outparse.tag_stream(body, keep_ws_text=True)
        except outparse.OutParseError as e:
            return ('line %d unreadable: %s' % (li, e), {})
        d = len(stack)
        if toks and toks[0][0] == 'close':
            d -= 1
        if li > 0 and body.strip():
            if indent and k != d:
                return ('line %d: %d indent units, %d elements open: %r' % (li, k, d, line),
                        {'units': k, 'open': d, 'previous_line_is_text_only': prev_text_only, 'starts_with': toks[0][0] if toks else None})
            if body[:1] in ' \t':
                return ('line %d: stray leading blank after the indentation: %r' % (li, line), {})
        for t in toks:
            if t[0] == 'open':
                if not t[3] and t[1] not in VOID:
                    stack.append(t[1])
            elif t[0] == 'close':
                if not stack or stack[-1] != t[1]:
                    return ('line %d: close tag %r does not match %r' % (li, t[1], stack[-1] if stack else None), {})
                stack.pop()
        prev_text_only = bool(toks) and all(t[0] == 'text' for t in toks)
    if stack:
        return ('unclosed elements %r' % stack, {})
    return None


def run_shard(desc, ctx):
    mon = Mon(ctx)
    rng = ctx.rng
    pr = probes.Probes().add('emmet.markup.format.html:should_format').add('emmet.markup.format.html:get_indent') \
        .add('emmet.output_stream:OutputStream.push_newline').add('emmet.markup.format.comment:output').add('emmet.markup.addon.xsl:xsl').install()
    try:
        import emmet as _em
        from emmet.scanner import ScannerException as _SE
        from emmet.token_scanner import TokenScannerException as _TE
        # near misses (vmon/stretch.py): text the formatter looks at with a pattern - it only has to come back
        for ab in stretch.near_miss_inputs(rng, ['p{<%s}', 'li{<%s/>}*2', 'ul>li{<%s}+li', 'p{%s}', '{<%s}', 'div>p{<%s}>b', 'a[title="<%s"]'], 14):
            cfgn = {'syntax': rng.choice(['html', 'xml', 'jsx', 'vue', 'xsl']), 'options': {'output.format': rng.random() < 0.7, 'comment.enabled': rng.random() < 0.2}}
            stretch.must_return(ctx, _em.expand, (ab, cfgn), {'near_miss': True, 'abbr': ab, 'config': cfgn, '_allowed': (_SE, _TE)})
        for line in stretch.near_miss_inputs(rng, stretch.WRAP_RUN_LINES, 8):
            cfgn = {'syntax': rng.choice(['html', 'xml', 'jsx', 'vue', 'xsl']), 'text': [line, 'two']}
            stretch.must_return(ctx, _em.expand, (rng.choice(['ul>li*', 'p', 'div>p*>b']), cfgn), {'near_miss': True, 'wrap_line': line, 'config': cfgn, '_allowed': (_SE, _TE)})
        for i in range(desc['n']):
            d2 = (i % 10 == 9)
            flags = {}
            abbr = gen_abbr_case(rng, d2, field_parents=(i % 5 == 3), flags=flags)
            if abbr is None:
                continue
            syntax = SYNTAXES[i % 6]
            fopts = rand_format_opts(rng)
            copts = dict(rand_format_opts(rng), **{'comment.enabled': True})
            if rng.random() < 0.3:
                copts['comment.before'] = '<!-- [#ID][.CLASS] -->'
            if rng.random() < 0.3:
                copts['comment.trigger'] = ['id', 'class', 'title', 'd1']
            dopts = {'output.format': True, 'output.formatSkip': [], 'output.indent': rng.choice(['\t', '  ', '    ', ' ']),
                     'output.baseIndent': rng.choice(['', '  ', '\t', '   ']), 'output.newline': rng.choice(['\n', '\r\n']),
                     'output.inlineBreak': rng.choice([0, 1, 2, 3, 5]), 'output.formatLeafNode': rng.random() < 0.2,
                     'output.formatForce': rng.choice([[], ['body'], ['p', 'li']])}
            mon.check(abbr, syntax, fopts, copts, dopts, d2, skip_depth=bool(flags.get('field_parent')))
            if i % 7 == 2:
                # a line break inside an ATTRIBUTE value: the continuation line starts like every other line - baseIndent plus one unit per open element -
                # and nothing else changes (compared with the same abbreviation whose value has a blank where the line break was)
                depth = rng.randint(0, 4)
                chain = ['x-a', 'x-b', 'section', 'x-c'][:depth]
                leaf = rng.choice(['p[title="l1\nl2"]', 'x-e[d1=v t="l1\nl2" k]', 'img[alt="l1\nl2"]', 'p[title="l1\nl2"]{t}', 'x-e[t="l1\nl2"]>x-f', 'x-e.c[t="l1\nl2"]+x-g'])
                ab = '>'.join(chain + [leaf])
                nl, ind, base = dopts['output.newline'], dopts['output.indent'], dopts['output.baseIndent']
                cfgm = {'syntax': rng.choice(['html', 'xml', 'jsx']), 'options': dict(dopts)}
                ctx.ev('attribute-line-break')
                ctx.mon('oracle:indent-equals-depth')
                r1 = core.call(mon.expand, ab, cfgm)
                r2 = core.call(mon.expand, ab.replace('l1\nl2', 'l1 l2'), cfgm)
                case = {'abbr': ab, 'syntax': cfgm['syntax'], 'format_options': {}, 'comment_options': {}, 'depth_options': dopts, 'attribute_line_break': depth}
                if r1[0] == 'exc' or r2[0] == 'exc':
                    ctx.violation('exception', case, {'exc': list(core.exc_site((r1 if r1[0] == 'exc' else r2)[1]))})
                elif r1[1].replace('l1' + nl + base + ind * depth + 'l2', 'l1 l2') != r2[1]:
                    ctx.violation('indent-not-depth', dict(case, which='attribute-value-line'), {'why': 'the continuation line of an attribute value is not at baseIndent + %d units (or something else changed)' % depth,
                                                                                                'output': r1[1][:300], 'single_line_twin': r2[1][:300]})
    finally:
        pr.uninstall()
    for k, v in pr.reach().items():
        ctx.mon('reach:' + k, v)


def replay(case, ctx):
    if 'attribute_line_break' in case:
        mon = Mon(ctx)
        d = case['depth_options']
        cfgm = {'syntax': case['syntax'], 'options': dict(d)}
        ctx.ev('replay')
        r1 = core.call(mon.expand, case['abbr'], cfgm)
        r2 = core.call(mon.expand, case['abbr'].replace('l1\nl2', 'l1 l2'), cfgm)
        if r1[0] == 'exc' or r2[0] == 'exc' or r1[1].replace('l1' + d['output.newline'] + d['output.baseIndent'] + d['output.indent'] * case['attribute_line_break'] + 'l2', 'l1 l2') != r2[1]:
            ctx.violation('indent-not-depth', case, {'output': repr(r1[1])[:300]})
        return
    Mon(ctx).check(case['abbr'], case['syntax'], case['format_options'], case['comment_options'], case['depth_options'], case.get('d2', False), case.get('skip_depth', False))


def _multiline_text_then_inline_children(rec):
    """An element with a multi-line text AND children: after the text block the formatter opens the line of
    the closing tag; children that are not formatted themselves (inline) start on that line, one unit short.
    Explains only D2 cases whose offending line directly follows a text-only line, starts with an open tag
    and is exactly one indent unit short."""
    if rec['kind'] != 'indent-not-depth' or not rec['case'].get('d2'):
        return False
    sh = rec['detail'].get('shape') or {}
    return sh.get('previous_line_is_text_only') is True and sh.get('starts_with') == 'open' and sh.get('units') == sh.get('open', 0) - 1


CLASSIFIERS = {'C12-inline-children-after-multiline-text': _multiline_text_then_inline_children}
