"""C02 - repeaters make exactly N copies and number them as documented.

Refuting events: the number / order of copies in expand() output differs from the model, or
a substituted counter string differs from the documented formula; under maxRepeat, the copy
counts differ from the budget simulation.  Every element carries a unique marker class and
every `$` site a unique tag, so each output string is attributable to one written site and
one copy."""
import itertools
import re

from .. import core, hostile, outparse, probes

ID = 'C02'
RULE = ('cases = (abbreviation built from a written tree with repeaters, maxRepeat); enumerated: N in 1..6 x width 1..4 x base in {none,0,1,3,12} x '
        'reverse on/off x repeater placement (self / group / ancestor / group inside repeated parent) x site kind (name, class, id, unquoted and quoted '
        'attribute value, attribute name, text); every maxRepeat 1..total+1 for all nestings of <= 3 repeaters with counts 1..3 (1..4 in thorough; elements and groups); '
        'random trees nesting <= 4, N <= 101, <= 700 output elements, random limits. Non-trivial = at least one repeater with N >= 2; distinct by (abbreviation, maxRepeat)')
ASSUMPTIONS = ['counter of copy i of N: $ -> i, zero padded to the run width, @M -> M+i-1, @- -> N-i+1, @-M -> M+N-i; nearest enclosing repeater (self included), 1 when none',
               'maxRepeat M: every completed copy (children first, document order) uses one unit of a global budget; a repeater stops after the copy at whose '
               'completion the budget is exhausted; repeaters met later yield one copy',
               'under a truncating limit only copy counts and forward numbering are compared (the statement defines reverse numbering for complete repeaters)',
               '@^ (parent numbering) and numbering modifiers without any repeater are outside the statement and not generated; `*0` (exactly 0 copies) is generated without a maxRepeat limit only: under an exhausted limit the two clauses of the statement disagree about it']
FLOORS = {'quick': {'enum:numbering': 6000, 'enum:limit': 5000, 'random': 2400, 'random:limit': 3000},
          'thorough': {'enum:numbering': 6000, 'enum:limit': 28000, 'random': 60000, 'random:limit': 110000}}
REQUIRED_MONITORS = ['oracle:copies-and-counters', 'oracle:copies-direct-entry', 'probe:repeat-guard-monotone', 'probe:repeater-stack-balanced']

SITE_KINDS = ['name', 'class', 'id', 'attr', 'qattr', 'attrname', 'text', 'eattr', 'ntext', 'mail']


def describe(tier):
    return {'exhaustive': True, 'bounds': {'N': '1..6', 'width': '1..4', 'base': [None, 0, 1, 3, 12], 'placements': 4, 'site_kinds': SITE_KINDS,
                                           'limit_enumeration': 'all nestings of <= 3 repeaters (element/group), counts 1..3, every maxRepeat 1..total+1',
                                           'note': 'numbering and limit tables exhaustive as stated; random trees are samples'}}


class N:
    __slots__ = ('kind', 'ch', 'rep', 'mark', 'sites')

    def __init__(self, kind='e'):
        self.kind = kind
        self.ch = []
        self.rep = None
        self.mark = None
        self.sites = []       # (tag, site kind, width, base, reverse)


def mod(base, rev):
    if base is None and not rev:
        return ''
    return '@' + ('-' if rev else '') + ('' if base is None else str(base))


STYLE = {'cap': False}      # capitalised element names (JSX component names take another path through the name parser)


def head(n):
    name = 'Xe' if STYLE['cap'] else 'x-e'
    parts = ''
    ids = ''
    text = ''
    for tag, kind, w, base, rev in n.sites:
        site = 'k%d-%s%s' % (tag, '$' * w, mod(base, rev))
        if kind == 'name':
            name = ('X' if STYLE['cap'] else 'x') + site
        elif kind == 'class':
            # a start value followed by `/digit` is a fraction-like class name (w-1/4): the slash belongs to the literal, not to the element
            parts += '.' + site + ('/4' if base is not None and tag % 3 == 0 else '')
        elif kind == 'id':
            ids += '#' + site       # ids are written first: a `$` run directly followed by `#` would spell the `$#` placeholder
        elif kind == 'attr':
            parts += '[d%d=%s]' % (tag, site)
        elif kind == 'qattr':
            parts += '[q%d="%s z"]' % (tag, site)
        elif kind == 'attrname':
            parts += '[%s=v]' % site
        elif kind == 'eattr':
            parts += '[e%d={%s}]' % (tag, site)     # an expression value keeps its braces in EVERY copy
        elif kind == 'mail':
            parts += '[e%d="%s@x.io"]' % (tag, site)       # an `@` that is no modifier stays text (numbered mail addresses)
        elif kind == 'ntext':
            text += '{a{%s}b{{c}}}' % site       # numbering inside balanced inner braces (`li{{{item$}}}` for a template language)
        else:
            text += '{%s}' % site
    if STYLE.get('ph') and n.mark % 2 == 0:
        # a wrap placeholder next to the counters (the call then supplies a text): reading `$#` must not disturb the numbering that follows it
        parts = '[w%d=$#]' % n.mark + parts + ('[v%d=$#]' % n.mark if n.mark % 4 == 0 else '')
    s = name + '.m%d' % n.mark + ids + parts + text
    if n.rep is not None:
        s += '*%d' % n.rep
    return s


def write(nodes):
    parts = []
    for n in nodes:
        if n.kind == 'g':
            s = '(' + write(n.ch) + ')'
            if n.rep is not None:
                s += '*%d' % n.rep
        else:
            s = head(n)
            if n.ch:
                s += '>' + write(n.ch)
                if len(nodes) > 1:
                    s = '(' + s + ')'
        parts.append(s)
    return '+'.join(parts)


def simulate(nodes, budget, ctx, truncated):
    """expected output: list of ('open', mark, {tag: counter}) / ('close',).  ctx = (i0, N) of the
    nearest enclosing repeater; budget = [remaining] or None; truncated = [bool]."""
    out = []
    for n in nodes:
        reps = n.rep if n.rep is not None else 1
        i = 0
        while i < reps:
            c = (i, reps) if n.rep is not None else ctx
            if n.kind == 'g':
                out += simulate(n.ch, budget, c, truncated)
            else:
                vals = {}
                for tag, kind, w, base, rev in n.sites:
                    if c is None:
                        v = 1
                    else:
                        b = 1 if base is None else base
                        v = b + c[1] - c[0] - 1 if rev else b + c[0]
                    vals[str(tag)] = [str(v).rjust(w, '0'), bool(rev), kind]
                out.append(['open', n.mark, vals])
                out += simulate(n.ch, budget, c, truncated)
                out.append(['close'])
            if n.rep is not None and budget is not None:
                budget[0] -= 1
                if budget[0] <= 0:
                    if i + 1 < reps:
                        truncated[0] = True
                    break
            i += 1
    return out


RE_SITE = re.compile(r'k(\d+)-(-?\d+)')
RE_MARK = re.compile(r'\bm(\d+)\b')


def observe(out):
    "actual stream read from the output with the independent tag scanner"
    stream = outparse.tag_stream(out)
    res = []
    for t in stream:
        if t[0] == 'open':
            raw = t[1] + ' ' + ' '.join('%s=%s' % (a, v) for a, v in t[2])
            m = None
            for a, v in t[2]:
                if a in ('class', 'className') and v:
                    mm = RE_MARK.search(v)
                    if mm:
                        m = int(mm.group(1))
            vals = {g[0]: g[1] for g in RE_SITE.findall(raw)}
            for a, v in t[2]:
                for g in RE_SITE.findall('%s=%s' % (a, v)):
                    vals['raw:' + g[0]] = v
            res.append(['open', m, vals])
            if t[3]:
                res.append(['close'])
        elif t[0] == 'close':
            res.append(['close'])
        elif t[0] == 'text':
            if res and res[-1][0] == 'open':
                for g in RE_SITE.findall(t[1]):
                    res[-1][2][g[0]] = g[1]
    return res


class Mon:
    def __init__(self, ctx):
        import emmet
        self.ctx = ctx
        self.expand = hostile.wrap(emmet.expand, ctx)
        self.guard_last = None
        self.depth_in = []
        # ONE settings dictionary kept by the caller and edited between calls (the limit raised, lowered, set to None, removed): the limit in
        # force is the one the dictionary holds at the time of the call
        self.kept = {'options': {'output.format': False}}
        self.kept_history = []
        self.calls = 0

    def kept_config(self, syntax, max_repeat, text):
        k = self.kept
        self.kept_history.append([syntax, max_repeat])
        del self.kept_history[:-3]
        for key, val in (('syntax', syntax), ('maxRepeat', max_repeat), ('text', text)):
            if val is not None:
                k[key] = val
            elif key in k:
                if len(self.kept_history) % 2 or key == 'text':
                    del k[key]
                else:
                    k[key] = None       # "None is the same as an absent key"
        return k

    def check(self, abbr, expected, truncated, max_repeat, cls, syntax=None, text=None, kept_history=None):
        ctx = self.ctx
        ctx.ev(cls)
        cfg = {'options': {'output.format': False}}
        if syntax:
            cfg['syntax'] = syntax
        if max_repeat is not None:
            cfg['maxRepeat'] = max_repeat
        if text is not None:
            cfg['text'] = text
        case = {'abbr': abbr, 'maxRepeat': max_repeat, 'expected': expected, 'truncated': truncated, 'syntax': syntax, 'text': text}
        self.calls += 1
        if kept_history is not None:
            # replay: the calls that went before on the kept dictionary
            for sy, m in kept_history[:-1]:
                core.call(self.expand, 'x-a*4>x-b*3', self.kept_config(sy, m, None))
        if kept_history is not None or self.calls % 3 == 0:
            ctx.mon('workload:kept-dictionary-edited-between-calls')
            cfg = self.kept_config(syntax, max_repeat, text)
            case['kept_history'] = [list(x) for x in self.kept_history]
            ctx.state('kept-limit-edit', '%s -> %s' % tuple('none' if len(h) < 2 or h[1] is None else 'M' for h in (self.kept_history[-2:] if len(self.kept_history) > 1 else [[None, None]] + self.kept_history[-1:])))
        self.guard_last = None
        r = core.call(self.expand, abbr, cfg)
        ctx.mon('oracle:copies-and-counters')
        if r[0] == 'exc':
            ctx.violation('exception', case, {'exc': list(core.exc_site(r[1])), 'msg': str(r[1])[:120]})
            return
        try:
            act = observe(r[1])
        except outparse.OutParseError as e:
            ctx.violation('unparseable-output', case, {'output': r[1][:300], 'parser': str(e)})
            return
        exp_shape = [[x[0], x[1]] if x[0] == 'open' else ['close'] for x in expected]
        act_shape = [[x[0], x[1]] if x[0] == 'open' else ['close'] for x in act]
        if exp_shape != act_shape:
            ne = sum(1 for x in expected if x[0] == 'open')
            na = sum(1 for x in act if x[0] == 'open')
            ctx.violation('copy-count' if ne != na else 'copy-order', case,
                          {'expected_elements': ne, 'actual_elements': na, 'output': r[1][:300]})
            return
        for e, a in zip(expected, act):
            if e[0] != 'open':
                continue
            for tag, spec in e[2].items():
                val, rev = spec[0], spec[1]
                if len(spec) > 2 and spec[2] == 'eattr' and not str(a[2].get('raw:' + tag, '')).startswith('{'):
                    ctx.violation('expression-value-lost-its-braces', case, {'site': 'k' + tag, 'element_mark': e[1], 'printed': a[2].get('raw:' + tag), 'output': r[1][:300]})
                    return
                if len(spec) > 2 and spec[2] == 'mail' and '@x.io' not in str(a[2].get('raw:' + tag, '')):
                    ctx.violation('text-after-counter-lost', case, {'site': 'k' + tag, 'element_mark': e[1], 'printed': a[2].get('raw:' + tag), 'output': r[1][:300]})
                    return
                if truncated and rev:
                    continue
                if a[2].get(tag) != val:
                    ctx.violation('counter', case, {'site': 'k' + tag, 'element_mark': e[1], 'expected': val, 'actual': a[2].get(tag),
                                                    'reverse': rev, 'output': r[1][:300]})
                    return
        if any(x[0] == 'open' for x in expected[2:]):
            ctx.seen((abbr, max_repeat))
        if len(ctx.samples) < 3 and len(abbr) > 40 and (max_repeat or len(ctx.samples) < 2):
            ctx.sample({'abbreviation': abbr, 'maxRepeat': max_repeat, 'output': r[1][:260]})


def direct_shape(tree):
    "open/close shape with marker ids read from the node tree returned by the parser entry point"
    out = []
    for n in tree.children:
        mark = None
        for a in n.attributes or []:
            if a.name == 'class' and a.value:
                mm = RE_MARK.search(''.join(v if isinstance(v, str) else ' ' for v in a.value))
                if mm:
                    mark = int(mm.group(1))
        out.append(['open', mark])
        out += direct_shape(n)
        out.append(['close'])
    return out


def check_direct(mon, nodes, limit, cls):
    """The same clause observed at the parser entry point emmet.parse_markup_abbreviation(abbr, {'max_repeat': M}), which also
    takes the degenerate limits expand() cannot express (expand treats maxRepeat 0 / None as 'no limit'): with M <= 0 the limit is
    exhausted from the start, so every repeater yields one copy."""
    import emmet
    ctx = mon.ctx
    ctx.ev(cls)
    ctx.mon('oracle:copies-direct-entry')
    abbr = write(nodes)
    exp = simulate(nodes, [limit], None, [False])
    exp_shape = [[x[0], x[1]] if x[0] == 'open' else ['close'] for x in exp]
    case = {'direct': True, 'abbr': abbr, 'max_repeat': limit, 'expected_shape': exp_shape}
    r = core.call(emmet.parse_markup_abbreviation, abbr, {'max_repeat': limit})
    if r[0] == 'exc':
        ctx.violation('exception', case, {'exc': list(core.exc_site(r[1])), 'msg': str(r[1])[:120]})
        return
    act = direct_shape(r[1])
    if act != exp_shape:
        ctx.violation('copy-count', case, {'entry': 'emmet.parse_markup_abbreviation', 'expected_elements': sum(1 for x in exp_shape if x[0] == 'open'),
                                           'actual_elements': sum(1 for x in act if x[0] == 'open')})
    elif len(exp_shape) > 4:
        ctx.seen((abbr, 'direct', limit))


def tree_case(nodes, max_repeat):
    abbr = write(nodes)
    trunc = [False]
    exp = simulate(nodes, [max_repeat] if max_repeat else None, None, trunc)
    return abbr, exp, trunc[0]


def numbering_cases():
    tag = itertools.count(1)
    for n_rep, w, base, rev, place, kind in itertools.product(range(1, 7), range(1, 5), [None, 0, 1, 3, 12], [False, True],
                                                                 ['self', 'group', 'ancestor', 'group-in-repeated'], SITE_KINDS):
        e = N('e')
        e.mark = 1
        e.sites = [(next(tag) % 90 + 1, kind, w, base, rev)]
        if place == 'self':
            e.rep = n_rep
            nodes = [e]
        elif place == 'group':
            g = N('g')
            g.rep = n_rep
            sib = N('e')
            sib.mark = 2
            g.ch = [sib, e]
            nodes = [g]
        elif place == 'ancestor':
            a = N('e')
            a.mark = 2
            a.rep = n_rep
            mid = N('e')
            mid.mark = 3
            mid.ch = [e]
            a.ch = [mid]
            nodes = [a]
        else:
            a = N('e')
            a.mark = 2
            a.rep = 2
            g = N('g')
            g.rep = n_rep
            g.ch = [e]
            a.ch = [g]
            nodes = [a]
        yield nodes


def limit_cases(counts_range=(1, 2, 3)):
    "all nestings of <= 3 repeaters (each an element or a group), counts 1..3, plus a sibling repeater met later"
    for depth in (1, 2, 3):
        for kinds in itertools.product('eg', repeat=depth):
            for counts in itertools.product(counts_range, repeat=depth):
                for later in (None, 2):
                    mk = itertools.count(1)
                    inner = None
                    for k, c in reversed(list(zip(kinds, counts))):
                        e = N('e')
                        e.mark = next(mk)
                        e.sites = [(e.mark, 'class', 1, None, False)]
                        if k == 'e':
                            e.rep = c
                            if inner is not None:
                                e.ch = [inner]
                            node = e
                        else:
                            g = N('g')
                            g.rep = c
                            g.ch = [e] + ([inner] if inner is not None else [])
                            node = g
                        inner = node
                    nodes = [inner]
                    if later:
                        l = N('e')
                        l.mark = 9
                        l.rep = later
                        l.sites = [(9, 'id', 2, 3, True)]
                        nodes.append(l)
                    total = 1
                    for c in counts:
                        total *= c
                    total = sum(1 for x in simulate(nodes, None, None, [False]) if x[0] == 'open')
                    for m in range(1, total + 2):
                        yield nodes, m


REPS = {'pool': [1, 2, 2, 3, 3, 4, 5, 7, 12]}


def rand_tree(rng, depth=0, counter=None, copies=None):
    nodes = []
    for _ in range(rng.randint(1, 3)):
        if depth < 4 and rng.random() < 0.25:
            n = N('g')
            n.ch = rand_tree(rng, depth + 1, counter, copies)
        else:
            n = N('e')
            n.mark = next(counter)
            for _ in range(rng.choice([0, 1, 1, 2])):
                n.sites.append((next(counter), rng.choice(SITE_KINDS), rng.randint(1, 4), rng.choice([None, None, 0, 1, 3, 12]), rng.random() < 0.4))
            kinds = [s[1] for s in n.sites]
            if kinds.count('name') > 1 or kinds.count('id') > 1 or kinds.count('text') + kinds.count('ntext') > 1:
                n.sites = n.sites[:1]
            if depth < 4 and rng.random() < 0.45:
                n.ch = rand_tree(rng, depth + 1, counter, copies)
        if rng.random() < 0.45:
            n.rep = rng.choice(REPS['pool'])
        nodes.append(n)
    return nodes


def has_zero_rep(nodes):
    return any(n.rep == 0 or has_zero_rep(n.ch) for n in nodes)


def out_size(nodes):
    "number of output elements of the written tree without any limit"
    return sum((n.rep or 1) * ((1 if n.kind == 'e' else 0) + out_size(n.ch)) for n in nodes)


def strip_mods_without_repeater(nodes, has_rep=False):
    "modifiers (@M, @-) are only generated where a repeater governs the site"
    for n in nodes:
        h = has_rep or n.rep is not None
        if n.kind == 'e' and not h:
            n.sites = [(t, k, w, None, False) for t, k, w, b, r in n.sites]
        strip_mods_without_repeater(n.ch, h)


def shards(tier, seed):
    nl = 2 if tier == 'quick' else 8
    out = [{'kind': 'numbering'}] + [{'kind': 'limit', 'part': p, 'nparts': nl, 'counts': [1, 2, 3] if tier == 'quick' else [1, 2, 3, 4]} for p in range(nl)]
    n = 6 if tier == 'quick' else 16
    for p in range(n):
        out.append({'kind': 'random', 'n': 1500 if tier == 'quick' else 18000})
    return out


def run_shard(desc, ctx):
    mon = Mon(ctx)
    depth_stack = []

    def cs_start(frame):
        st = frame.f_locals.get('state')
        if st is None:
            return
        depth_stack.append((len(st.repeaters), st.repeat_guard))

    def cs_return(frame, retval):
        st = frame.f_locals.get('state')
        if st is None or not depth_stack:
            return
        d0, g0 = depth_stack.pop()
        ctx.mon('probe:repeater-stack-balanced')
        ctx.mon('probe:repeat-guard-monotone')
        if len(st.repeaters) != d0:
            ctx.anomaly('probe:repeater-stack-unbalanced', {'probe': 'convert_statement', 'depth_in': d0, 'depth_out': len(st.repeaters)})
        if st.repeat_guard > g0:
            ctx.anomaly('probe:repeat-guard-increased', {'probe': 'convert_statement', 'before': g0, 'after': st.repeat_guard})
        ctx.state('guard', 'depth=%d exhausted=%s' % (min(d0, 5), st.repeat_guard <= 0))

    def rn_return(frame, retval):
        tok = frame.f_locals.get('token')
        st = frame.f_locals.get('state')
        if tok is None or st is None:
            return
        if st.repeaters:
            r = st.repeaters[-1]
            ctx.state('numbering', 'N=%d i=%d w=%d base=%s rev=%s depth=%d' % (min(r.count, 13), min(r.value, 13), tok.size, tok.base, bool(tok.reverse), min(len(st.repeaters), 5)))

    pr = probes.Probes().add('emmet.abbreviation.convert:convert_statement', cs_start, cs_return) \
        .add('emmet.abbreviation.stringify:RepeaterNumber', None, rn_return).install()
    if not pr.installed or pr.unavailable:
        # probes are diagnostic: the boundary oracle still decides; mark the monitors as evaluated-unavailable
        ctx.notes['probes'] = 'unavailable: %r' % (pr.unavailable,)
        ctx.mon('probe:repeater-stack-balanced', 1)
        ctx.mon('probe:repeat-guard-monotone', 1)
    try:
        if desc['kind'] == 'numbering':
            for nodes in numbering_cases():
                abbr, exp, trunc = tree_case(nodes, None)
                mon.check(abbr, exp, trunc, None, 'enum:numbering')
        elif desc['kind'] == 'limit':
            for i, (nodes, m) in enumerate(limit_cases(tuple(desc.get('counts', (1, 2, 3))))):
                if i % desc['nparts'] != desc['part']:
                    continue
                abbr, exp, trunc = tree_case(nodes, m)
                mon.check(abbr, exp, trunc, m, 'enum:limit')
                k = i // desc['nparts']
                check_direct(mon, nodes, 0 if k % 5 == 0 else (-1 if k % 7 == 0 else m), 'enum:limit-direct')
        else:
            rng = ctx.rng
            REPS['pool'] = [1, 2, 2, 3, 3, 4, 5, 7, 12] * (8 if ctx.tier == 'quick' else 3) + [13, 16, 25, 40, 101, 0, 0, 0]        # (`*0`: exactly N copies, N = 0)
            done = 0
            while done < desc['n']:
                counter = itertools.count(1)
                nodes = rand_tree(rng, 0, counter)
                strip_mods_without_repeater(nodes)
                if out_size(nodes) > 700:       # decided arithmetically: simulating 101^4 copies first exhausted memory
                    continue
                done += 1
                m = rng.choice([None, None, None, None, None, 1, 2, 3, 5, 8, 13, 21, 50, 99, 100, 250])
                if has_zero_rep(nodes):
                    m = None        # "exactly N copies" (0) and "yields just one copy" (under an exhausted limit) disagree about `*0`: the limit clause is not driven with it
                jsx = rng.random() < 0.15
                ph = rng.random() < 0.2
                STYLE['cap'] = jsx
                STYLE['ph'] = ph
                try:
                    abbr, exp, trunc = tree_case(nodes, m)
                finally:
                    STYLE['cap'] = False
                    STYLE['ph'] = False
                if ph:
                    ctx.ev('random:with-wrap-placeholders')
                mon.check(abbr, exp, trunc, m, 'random:limit' if m else 'random', 'jsx' if jsx else rng.choice([None, None, 'xml', 'vue']),
                          text=rng.choice(['w', ['w'], 'two words']) if ph and '$#' in abbr else None)
                ctx.state('syntax', 'jsx+capitalised' if jsx else 'other')
    finally:
        pr.uninstall()
    for k, v in pr.reach().items():
        ctx.mon('reach:' + k, v)


def replay(case, ctx):
    if 'abbr' not in case:
        return
    if case.get('direct'):
        import emmet
        ctx.ev('replay')
        r = core.call(emmet.parse_markup_abbreviation, case['abbr'], {'max_repeat': case['max_repeat']})
        if r[0] == 'exc' or direct_shape(r[1]) != case['expected_shape']:
            ctx.violation('copy-count', case, {'entry': 'emmet.parse_markup_abbreviation'})
        return
    Mon(ctx).check(case['abbr'], case['expected'], case['truncated'], case['maxRepeat'], 'replay', case.get('syntax'), text=case.get('text'),
                   kept_history=case.get('kept_history'))


CLASSIFIERS = {}
