"""C13 - tabstops are numbered in document order and reported positions are exact.

Refuting events (offline checker over the log of callback invocations of one run): an
output.field / output.text invocation whose (offset, line, column) is not where the string it
returned ended up in the final result; colliding, out-of-order or missing tabstop numbers;
explicit fields of one value that lose their relative numbering."""
import bisect
import re

from .. import core, gen_abbr, hostile, outparse, probes, stretch

ID = 'C13'
RULE = ('cases = (abbreviation with and without explicit ${n:ph} fields, syntax, newline string, indent, baseIndent, callback behaviour); markup syntaxes '
        'html/xml/jsx/vue/pug/haml/slim and stylesheet syntaxes; newline in \\n, \\r\\n, \\r; callbacks: identity, letter-doubling, marker-wrapping, bare placeholder, selection (line breaks the placeholder never had), text-lines (more lines than given) (never '
        'touching blank-only pushes); EVERY callback invocation of every run is checked. Numbering is read back per attribute value / element content for '
        'the HTML-family syntaxes. Non-trivial = at least 3 callback events and one tabstop; distinct by (abbreviation, syntax, options)')
ASSUMPTIONS = ['line = number of line breaks (CRLF, CR or LF) in the final result before the offset, column = distance from the end of the last one; the callbacks of the harness '
               'return what they are given or a rewrite of it; line breaks enter through the configured newline (one line break per newline string), through multi-line placeholders and through what the selection / text-lines callbacks return',
               'text with explicit fields is only put on leaves (a value with fields AND children is split around the children: two values)',
               'the 1,2,3... clause is checked when the abbreviation has no explicit field and no snippet name whose definition carries fields']
FLOORS = {'quick': {'grouped-fields': 5000, 'nothing-to-wrap': 4000, 'run': 22000, 'callback-event': 1500000, 'stylesheet-run': 3500}, 'thorough': {'grouped-fields': 90000, 'nothing-to-wrap': 75000, 'run': 450000, 'callback-event': 12000000, 'stylesheet-run': 60000}}
REQUIRED_MONITORS = ['oracle:callback-position', 'oracle:tabstop-numbering', 'probe:offset-bookkeeping']
N = {'quick': 2500, 'thorough': 30000}
MARKUP = ['html', 'xml', 'jsx', 'vue', 'pug', 'haml', 'slim']
NAMES = ['div', 'p', 'span', 'em', 'ul', 'li', 'section', 'b', 'x-y', 'td', 'h1', 'a', 'img', 'br', 'table', 'article', 'ns:t', 'i']
SNIPPET_FIELD_NAMES = ['input', 'select', 'textarea', 'label', 'link:css', 'meta:vp']
RE_MARK = re.compile('⟦(\\d+):([^⟦⟧]*)⟧')


def describe(tier):
    return {'exhaustive': False, 'bounds': {'runs_per_shard': N[tier], 'newlines': ['\\n', '\\r\\n', '\\r'], 'syntaxes': MARKUP + ['css', 'scss', 'sass', 'stylus']}}


def shards(tier, seed):
    n = 10 if tier == 'quick' else 16
    return [{'n': N[tier]} for _ in range(n)]


def gen_case(rng, explicit, snippet_names):
    names = NAMES + (SNIPPET_FIELD_NAMES if snippet_names else [])
    attrs = ['[d1]', '[d2]', '[e1=v]', '[e2="v w"]', '[d1 d2]', '[k=""]']
    texts = ['t', 'hello world', 'l1\nl2']
    if explicit:
        attrs += ['[f=${1:f1}]', '[g="${2:f2} x ${4:f4}"]', '[h=${0:f0}]', '[m=${3:f3}${3:f3}]', '[n="a ${1:f1}"]']
        texts += ['a ${1:f1} b ${3:f3}', '${0:f0}', '${2:f2}${2:f2}', 'x ${5:f5}\ny ${1:f1}', 'p ${1:m1\nm2} q', '${2:r1\r\nr2}${1:s}', 'c1\rc2', 'e1\n\ne3',
                  'a ${1:t1\n} b', 'n{${1:f1}}m{{${2:f2}}}', '${1:x\x0cy} ${2:p\x85q}', '${3:u\u2028v}w', '${1:\n\n}z', '${2:k\x0bl\x1cm}']
        attrs += ['[o="${1:v1\nv2}"]', '[id=${1:f1}]', '[class="k ${2:f2}"]', '[id=${1:f1} class="k ${1:f1}"]', '[class="${2:f2} ${1:f1}" id="i${3:f3}"]']
    tree = gen_abbr.gen_tree(rng, names=names, p_text=0.3, texts=texts, attrs=attrs, p_attr=0.45, p_class=0.2, p_id=0.1, p_group=0.12, p_rep=0.15,
                             max_rep=3, classes=['c1', 'c2'], ids=['i1', 'i2'], p_selfclose=0.0, **(dict(max_depth=rng.choice([2, 3, 4])) if rng.random() < 0.88 else
                                dict(max_depth=rng.choice([8, 10, 13]), max_children=rng.choice([1, 2]), p_children=0.92)))

    if gen_abbr.depth_of(tree) > 6:
        gen_abbr.thin_reps(tree, rng)

    def fix(nodes):
        for n in nodes:
            if n.kind == 'e':
                if n.name in ('img', 'br', 'input', 'link:css', 'meta:vp'):
                    n.children = []
                    n.text = None
                if n.children and n.text and '${' in n.text:
                    n.text = 't'
            fix(n.children)
    fix(tree)
    return gen_abbr.write(tree, rng)[0]


class Run:
    "one monitored execution: callbacks record events, the offline checker judges them"

    def __init__(self, mode, blank_ok=True):
        self.ev = []
        self.mode = mode

    def field(self, index, placeholder, **k):
        r = '⟦%d:%s⟧' % (index, placeholder)
        if self.mode == 'bare':
            r = placeholder         # what a plain-text consumer does: the placeholder itself (may be empty, may END with a line break)
        elif self.mode == 'selection':
            # a plug-in that puts the editor's selection into the empty tabstops: what it returns has line breaks the placeholder never had
            r = placeholder or ('first line\nsecond' if index % 2 else 'one\r\ntwo\rthree')
        self.ev.append(('field', k.get('offset'), k.get('line'), k.get('column'), r))
        return r

    def text(self, t, **k):
        r = t
        if t.strip():
            if self.mode == 'double':
                r = ''.join(ch * 2 if ch.isalpha() else ch for ch in t)
            elif self.mode == 'wrap':
                r = '«' + t + '»'
            elif self.mode == 'text-lines' and len(t) % 3 == 0:
                # a text filter that answers with more lines than it was given (a wrapped long line, an expanded entity list)
                r = t + ('\n' if len(t) % 2 else '\r\n') + '+' + t[:3]
        self.ev.append(('text', k.get('offset'), k.get('line'), k.get('column'), r))
        return r


def check_positions(out, events, nl):
    "offline trace checker; returns None or (why, event)"
    ends = [m.end() for m in re.finditer(r'\r\n|\r|\n', out)]      # a line break is a line break, whichever newline string is configured
    for kind, off, line, col, r in events:
        if not all(isinstance(x, int) for x in (off, line, col)):
            return ('non-integer position', [kind, off, line, col, r])
        if out[off:off + len(r)] != r:
            return ('returned string is not at the reported offset', [kind, off, line, col, r, out[off:off + len(r)]])
        i = bisect.bisect_right(ends, off)
        el = i
        ec = off - (ends[i - 1] if i else 0)
        if (line, col) != (el, ec):
            return ('line/column wrong: expected (%d, %d)' % (el, ec), [kind, off, line, col, r])
    return None


def check_numbering(out, explicit_or_snippet):
    "returns None or why; numbers read back per attribute value / element content"
    st = outparse.tag_stream(out)
    groups = []
    prev_open = None
    for t in st:
        if t[0] == 'open':
            for a, v in t[2]:
                if v is None:
                    continue
                inner = v[1:-1] if v[:1] in '"\'{' else v
                marks = RE_MARK.findall(inner)
                if inner == '':
                    return 'empty attribute value without tabstop: %s=%s' % (a, v)
                if marks:
                    groups.append(marks)
            prev_open = t if not t[3] else None
        elif t[0] == 'close':
            if prev_open is not None and prev_open[1] == t[1]:
                return 'empty leaf <%s> without tabstop' % t[1]
            prev_open = None
        elif t[0] == 'text':
            marks = RE_MARK.findall(t[1])
            if marks:
                groups.append(marks)
            prev_open = None
        elif t[0] == 'comment':
            # default template `<!-- /[#ID][.CLASS] -->`: the id part and the class part are copies of two different values
            body = t[1][4:-3].strip()
            m = re.match(r'/?(#(?:[^.\u27e6]|\u27e6[^\u27e7]*\u27e7)*)?(\..*)?$', body, re.S)
            for part in ((m.group(1), m.group(2)) if m else (body,)):
                marks = RE_MARK.findall(part or '')
                if marks:
                    groups.append(marks)
            prev_open = None
        else:
            prev_open = None
    seen_max = 0
    for g in groups:
        nums = [int(n) for n, ph in g]
        if min(nums) <= seen_max:
            return 'tabstop numbers collide or go backwards: %r after max %d' % (nums, seen_max)
        seen_max = max(nums)
        # explicit fields keep their written differences inside one value
        written = [(int(n), int(ph[1:])) for n, ph in g if re.fullmatch(r'f\d+', ph)]
        if written and len(set(n - w for n, w in written)) != 1:
            return 'explicit fields of one value lost their relative numbering: %r' % (g,)
        if len(nums) > 1 and not written and len(set(nums)) != len(nums):
            return 'two automatic tabstops share a number inside one value: %r' % (g,)
    if not explicit_or_snippet:
        flat = [int(n) for g in groups for n, ph in g]
        if flat != list(range(1, len(flat) + 1)):
            return 'automatic tabstops are not 1,2,3...: %r' % (flat[:20],)
    return None


class Mon:
    def __init__(self, ctx):
        import emmet
        self.ctx = ctx
        self.expand = hostile.wrap(emmet.expand, ctx)

    def check(self, abbr, cfg_base, mode, flags, cls):
        ctx = self.ctx
        ctx.ev(cls)
        run = Run(mode)
        cfg = dict(cfg_base)
        cfg['options'] = dict(cfg_base.get('options', {}))
        cfg['options']['output.field'] = run.field
        cfg['options']['output.text'] = run.text
        case = {'abbr': abbr, 'config': cfg_base, 'mode': mode, 'flags': flags}
        r = core.call(self.expand, abbr, cfg)
        if r[0] == 'exc':
            ctx.violation('exception', case, {'exc': list(core.exc_site(r[1])), 'msg': str(r[1])[:100]})
            return
        out = r[1]
        ctx.ev('callback-event', len(run.ev))
        ctx.mon('oracle:callback-position', len(run.ev))
        why = check_positions(out, run.ev, cfg['options'].get('output.newline', '\n'))
        if why:
            ctx.violation('callback-position', case, {'why': why[0], 'event': why[1], 'output': out[:300]})
            return
        for e in run.ev[:200]:
            ctx.state('position', 'line=%d col=%d' % (min(e[2], 12), min(e[3], 30)))
        if flags.get('numbering'):
            ctx.mon('oracle:tabstop-numbering')
            try:
                why = check_numbering(out, flags.get('explicit') or flags.get('snippet_names'))
            except outparse.OutParseError as e:
                ctx.violation('unparseable-output', case, {'output': out[:300], 'parser': str(e)})
                return
            if why:
                ctx.violation('tabstop-numbering', case, {'why': why, 'output': out[:400]})
                return
        if len(run.ev) >= 3 and '⟦' in out:
            ctx.seen((abbr, repr(sorted(cfg_base.items(), key=repr)), mode))
        if len(ctx.samples) < 3 and flags.get('explicit') and len(run.ev) > 12:
            ctx.sample({'abbreviation': abbr, 'config': cfg_base, 'callback_mode': mode, 'output': out[:300],
                        'events(first 6)': [list(e) for e in run.ev[:6]]})


# every VALUE writes its fields with placeholders of its own letter (i: id, c: class, t/u: other attributes, x: text) followed by the written index
GROUPED = {'i': ['${1:i1}', 'p${1:i1}-${2:i2}', '${2:i2}${1:i1}', '${3:i3}'], 'c': ['${1:c1}', 'k ${1:c1}', '${1:c1} ${2:c2}', '${3:c3}-w', '${2:c2} m ${1:c1}'],
           't': ['${1:t1}', '${2:t2} ${1:t1}', 'a${4:t4}'], 'u': ['${1:u1}', '${1:u1}${1:u1}'], 'x': ['${1:x1}', 'a ${2:x2} b ${1:x1}', 'a ${1:x1}\nb ${1:x1}', '${2:x2}\n${1:x1} c\n${3:x3}']}      # (a value may span several lines: it is still ONE value)
GROUPED_FORMS = ['E[id="I" class="C"]', 'E[class="C" id="I"]', 'E[id="I" class="C" t="T"]', 'E[t="T" id="I" u="U" class="C"]', 'E#j[class="C" t="T"]', 'E.k[id="I"]{X}', 'E[class="C"]{X}',
                 'E[id="I" class="C"]>p[t="T"]', 'x-p[t="T"]>E[id="I" class="C"]+q[u="U"]', 'E[id="I"]+E[class="C"]', 'E[id="I" class="C"]*2']
RE_GMARK = re.compile('⟦(\\d+):([ictux])(\\d)⟧')


def grouped_case(rng):
    form = rng.choice(GROUPED_FORMS)
    s = form.replace('E', rng.choice(['div', 'p', 'section', 'x-y']))
    for letter, g in (('I', 'i'), ('C', 'c'), ('T', 't'), ('U', 'u'), ('X', 'x')):
        s = s.replace(letter, rng.choice(GROUPED[g]))
    return s


def check_grouped(out, copies):
    """fields of one value keep their written differences; the numbers of different values never collide.  Works for every syntax: a value is
    recognised by the letter of its placeholders, not by reading the output's grammar"""
    order = []
    fresh = True
    for n, ph in RE_MARK.findall(out):
        m = re.fullmatch(r'([ictux])(\d)', ph)
        if not m:
            fresh = True        # a tabstop of another kind stands between two values (a comment repeats the id / class value after the element's content)
            continue
        g, k = m.group(1), int(m.group(2))
        # one value = one uninterrupted run of one letter
        if fresh or order[-1][0] != g:
            order.append((g, []))
        fresh = False
        order[-1][1].append((int(n), k))
    taken = {}
    for idx, (g, marks) in enumerate(order):
        if len(set(n - k for n, k in marks)) != 1:
            return 'explicit fields of one value lost their relative numbering: value %r fields %r' % (g, marks)
        for n, k in marks:
            if n in taken and taken[n] != idx:
                return 'tabstop %d is used by two values (%r and %r)' % (n, order[taken[n]][0], g)
            taken[n] = idx
    for n, ph in RE_MARK.findall(out):
        if ph == '' and int(n) in taken:
            return 'the automatic tabstop %s collides with a field of value %r' % (n, order[taken[int(n)]][0])
    return None


NOTEXT_NAMES = ['p', 'div', 'li', 'span', 'br', 'img', 'a', 'td', 'x-y', 'hr']
NOTEXT_PARENTS = ['p', 'div', 'li', 'span', 'a', 'td', 'x-y']       # (an empty element with children is written with a closing tag: keep the reader simple)
NOTEXT_FORMS = ['X*', 'P>X*', '(P>Y)*', 'Q>P*>Y', 'X*+Z', 'X.c1*', 'P>(X+Y)*', 'X[d1]*', 'X', 'P>X', 'X+Y', 'P>X+Y', 'P*2>Y*', '(X*)+Z', 'P>Q>X*']
NOTEXT_TEXTS = [None, None, None, '', '', [], [''], ['', '  ']]      # (a blank-only STRING is one chunk put in as it is: not empty content)
CSS_ABBRS = ['p10+m', 'bd', 'm+p+c', 'anim', '@kf', 'trf:r', 'bxsh', 'c#f+bgc', 'p${1:foo}', 'lg', 'fz1.5+lh', '@m', 'cnt', 'to', 'bgp', 'p!+m0-a',
             'c:"a\nb"', "cnt:'x\r\ny'${1:z}", 'bg:u("a\nb")', 'ff:"l1\rl2"', 'cnt:"one\n\nthree"', 'p${1:a\nb}', 'm${1:t\n}+p', 'p${1:x\x0cy}${2:u\u2028v}+m', 'c:"f\x0cg"+m']


def run_shard(desc, ctx):
    mon = Mon(ctx)
    rng = ctx.rng
    last = {}

    def push_return(frame, retval):
        s = frame.f_locals.get('self')
        t = frame.f_locals.get('text')
        if s is None or not isinstance(t, str):
            return
        ctx.mon('probe:offset-bookkeeping')
        prev = last.get(id(s))
        if prev is not None and prev[0] is s and s.offset != prev[1] + len(t):
            ctx.anomaly('probe:offset-bookkeeping', {'probe': 'OutputStream._push', 'before': prev[1], 'pushed': len(t), 'after': s.offset})
        last.clear()
        last[id(s)] = (s, s.offset)

    fields = {}

    def tokens_return(frame, retval):
        st = frame.f_locals.get('state')
        if st is None:
            return
        # (the counter is no invariant any more: since repair 8126f6b the lines of a multi-line value are pushed one by one, each from the
        # same base, so it legitimately steps back between the lines of one value; the probe only counts the values it saw)
        ctx.mon('probe:field-counter-seen')
        ctx.state('field-counter', str(min(st.field, 40)))

    pr = probes.Probes().add('emmet.output_stream:OutputStream._push', None, push_return) \
        .add('emmet.markup.format.utils:push_tokens', None, tokens_return).add('emmet.output_stream:OutputStream.push_field').install()
    if not pr.installed or pr.unavailable:
        ctx.notes['probes'] = 'unavailable: %r' % (pr.unavailable,)
        ctx.mon('probe:offset-bookkeeping', 1)
    try:
        import emmet as _em
        from emmet.scanner import ScannerException as _SE
        from emmet.token_scanner import TokenScannerException as _TE
        # near misses (vmon/stretch.py): text the formatter looks at with a pattern - it only has to come back
        for ab in stretch.near_miss_inputs(rng, ['p{<%s}', 'li{<%s/>}*2', 'ul>li{<%s}+li', 'p{%s}', '{<%s}', 'div>p{<%s}>b', 'a[title="<%s"]'], 14):
            cfgn = {'syntax': rng.choice(['html', 'xml', 'jsx', 'vue', 'pug', 'haml', 'slim']), 'options': {'output.format': rng.random() < 0.7, 'comment.enabled': rng.random() < 0.2}}
            stretch.must_return(ctx, _em.expand, (ab, cfgn), {'near_miss': True, 'abbr': ab, 'config': cfgn, '_allowed': (_SE, _TE)})
        for line in stretch.near_miss_inputs(rng, stretch.WRAP_RUN_LINES, 8):
            cfgn = {'syntax': rng.choice(['html', 'xml', 'jsx', 'vue', 'pug', 'haml', 'slim']), 'text': [line, 'two']}
            stretch.must_return(ctx, _em.expand, (rng.choice(['ul>li*', 'p', 'div>p*>b']), cfgn), {'near_miss': True, 'wrap_line': line, 'config': cfgn, '_allowed': (_SE, _TE)})
        for i in range(desc['n']):
            explicit = rng.random() < 0.5
            snippet_names = rng.random() < 0.2
            abbr = gen_case(rng, explicit, snippet_names)
            syntax = rng.choice(MARKUP)
            opts = {'output.newline': rng.choice(['\n', '\r\n', '\r']), 'output.indent': rng.choice(['\t', '  ', '    ']),
                    'output.baseIndent': rng.choice(['', '  ', '\t\t'])}
            if rng.random() < 0.15:
                opts['output.format'] = False
            if rng.random() < 0.15:
                opts['comment.enabled'] = True
            flags = {'explicit': explicit, 'snippet_names': snippet_names,
                     'numbering': syntax in ('html', 'xml', 'jsx', 'vue')}
            mode = rng.choice(['id', 'double', 'wrap', 'bare', 'selection', 'text-lines'])
            if flags['numbering'] and mode != 'id':
                mode = 'id' if rng.random() < 0.7 else mode
            if mode != 'id':
                flags['numbering'] = False       # length-changing text callbacks rewrite the markers' surroundings only, but keep the reader simple
            mon.check(abbr, {'syntax': syntax, 'options': opts}, mode, flags, 'run')
            if i % 5 == 0:
                # nothing to wrap: an implicit repeater without text, or a text that is empty once trimmed, leaves the element empty - it is a leaf like any other
                x, y, z = rng.choice(NOTEXT_NAMES), rng.choice(NOTEXT_NAMES), rng.choice(NOTEXT_NAMES)
                a = rng.choice(NOTEXT_FORMS).replace('X', x).replace('Y', y).replace('Z', z).replace('P', rng.choice(NOTEXT_PARENTS).upper()).replace('Q', rng.choice(NOTEXT_PARENTS).upper()).lower()
                cfg = {'syntax': rng.choice(['html', 'xml', 'jsx', 'vue']), 'options': opts}
                t = rng.choice(NOTEXT_TEXTS)
                if t is not None:
                    cfg['text'] = t
                if i % 15 == 0:
                    # a variable that stands for nothing leaves the value empty as well
                    a = rng.choice(['X{${vv}}', 'P>X{${vv}}', 'X[t="${vv}"]', 'X[t=${vv}]{${vv}}', 'P>X[t="${vv}" d1]+Y', 'X{${vv}${vv}}']).replace('X', x).replace('Y', y).replace('P', rng.choice(NOTEXT_PARENTS))
                    a = a if x not in ('br', 'img', 'hr') else a.replace(x, 'p')
                    cfg = dict(cfg, variables={'vv': ''})
                    cfg.pop('text', None)
                mon.check(a, cfg, 'id', {'numbering': True, 'snippet_names': False, 'explicit': False}, 'nothing-to-wrap')
            if i % 4 == 1:
                a = grouped_case(rng)
                gs = rng.choice(MARKUP)
                ctx.ev('grouped-fields')
                ctx.mon('oracle:fields-of-different-values-never-collide')
                gr = Run('id')
                gcfg = {'syntax': gs, 'options': dict(opts, **{'output.field': gr.field, 'output.text': gr.text})}
                r = core.call(mon.expand, a, gcfg)
                gcase = {'abbr': a, 'config': {'syntax': gs, 'options': opts}, 'mode': 'id', 'flags': {'grouped': True}}
                if r[0] == 'exc':
                    ctx.violation('exception', gcase, {'exc': list(core.exc_site(r[1])), 'msg': str(r[1])[:100]})
                else:
                    why = check_grouped(r[1], 2 if a.endswith('*2') else 1)
                    if why:
                        ctx.violation('tabstop-numbering', gcase, {'why': why, 'output': r[1][:300]})
                    else:
                        ctx.state('grouped', gs)
            if i % 6 == 0:
                a = '+'.join(rng.choice(CSS_ABBRS) for _ in range(rng.randint(1, 3)))
                sopts = {'output.newline': rng.choice(['\n', '\r\n', '\r']), 'output.baseIndent': rng.choice(['', '  ', '\t'])}
                mon.check(a, {'type': 'stylesheet', 'syntax': rng.choice(['css', 'scss', 'sass', 'stylus']), 'options': sopts},
                          rng.choice(['id', 'double', 'wrap', 'bare']), {'numbering': False}, 'stylesheet-run')
    finally:
        pr.uninstall()
    for k, v in pr.reach().items():
        ctx.mon('reach:' + k, v)


def replay(case, ctx):
    if 'abbr' not in case:
        return
    if case['flags'].get('grouped'):
        mon = Mon(ctx)
        gr = Run('id')
        cfg = dict(case['config'])
        cfg['options'] = dict(cfg.get('options', {}), **{'output.field': gr.field, 'output.text': gr.text})
        ctx.ev('replay')
        r = core.call(mon.expand, case['abbr'], cfg)
        why = check_grouped(r[1], 1) if r[0] == 'ok' else 'exception'
        if why:
            ctx.violation('tabstop-numbering', case, {'why': why})
        return
    Mon(ctx).check(case['abbr'], case['config'], case['mode'], case['flags'], 'replay')


CLASSIFIERS = {}
