"""C05 - stylesheet abbreviations resolve numbers, units, colours and !important.

Refuting event: expand(abbr, stylesheet config) differs from the line the generated value
list denotes: wrong unit, wrong number text, a colour whose *value* changed or whose form
violates the short-hex / rgba rules, a missing `!important`, a wrong line shape."""
import itertools
import re

from .. import core, gen_cssabbr as G, hostile, probes

ID = 'C05'
RULE = ('cases = (1-3 properties joined by +, each: key with a unique exact snippet, value list, optional !; syntax; unit options); enumerated: every 1-, 2-, '
        '3-digit and a 4096-sample of 6-digit colours x alpha in {none,.1,.25,.5,.75} x shortHex; every value list up to the bound over 16 number shapes x '
        '12 unit forms on a unit-taking and a unitless property; random lists <= 6 values, several properties, random intUnit/floatUnit/unitAliases/shortHex, '
        'all 6 stylesheet syntaxes. Non-trivial = at least two values or a colour; distinct by (abbreviation, syntax, options)')
ASSUMPTIONS = ['the abbreviation is *written* with the documented delimiter rules (a "-" after a unit-less number or a colour separates; otherwise it is a sign)',
               'colours are compared by value (printed colour parsed back to r,g,b,a); short form required iff shortHex and every channel is a multiple of 17',
               '4/5-digit colours, "-0", "#x." (dot without digits), keywords and functions are outside this property',
               'a `cache` dict per option set is used (converting the snippet table costs 6 ms per call); 1 call in 400 runs without cache']
FLOORS = {'quick': {'enum:colour': 60000, 'enum:values': 25000, 'enum:values-sampled': 20000, 'random': 15000}, 'thorough': {'enum:colour': 80000, 'enum:values': 2500000, 'random': 400000}}
REQUIRED_MONITORS = ['oracle:line-shape', 'oracle:number-unit', 'oracle:colour-value', 'probe:color-roundtrip']
BOUNDS = {'quick': {'list_len': 2, 'sample_len': 3, 'stride': 240, 'random': 2500}, 'thorough': {'list_len': 3, 'sample_len': 4, 'stride': 400, 'random': 26000}}
SYNTAX_FMT = {'css': (': ', ';'), 'scss': (': ', ';'), 'less': (': ', ';'), 'sss': (': ', ';'), 'sass': (': ', ''), 'stylus': (' ', '')}
VALUE_FORMS = [(sh, u) for sh in G.NUM_SHAPES for u in [None, 'p', 'e', 'x', 'r', 'px', 'pt', '%', 'vh', 'rem', 'ms', 'fr']]


def describe(tier):
    b = BOUNDS[tier]
    return {'exhaustive': True, 'bounds': {'value_list_len_exhaustive': b['list_len'], 'value_list_len_sampled': '%d (every %dth)' % (b['sample_len'], b['stride']),
                                           'number_shapes': [s[0] for s in G.NUM_SHAPES], 'colour_digits': '1,2,3 exhaustive; 6 sampled (4096)'}}


RE_TOK = re.compile(r'rgba?\([^)]*\)|\S+')


def parse_colour(tok):
    t = tok.strip()
    if t == 'transparent':
        return (0, 0, 0, 0.0), 'transparent'
    m = re.fullmatch(r'#([0-9a-f]{3})', t)
    if m:
        h = m.group(1)
        return (int(h[0] * 2, 16), int(h[1] * 2, 16), int(h[2] * 2, 16), 1.0), 'short'
    m = re.fullmatch(r'#([0-9a-f]{6})', t)
    if m:
        h = m.group(1)
        return (int(h[0:2], 16), int(h[2:4], 16), int(h[4:6], 16), 1.0), 'long'
    m = re.fullmatch(r'rgba\((\d+), (\d+), (\d+), ([0-9.]+)\)', t)
    if m:
        return (int(m.group(1)), int(m.group(2)), int(m.group(3)), float(m.group(4))), 'rgba'
    return None, None


class Mon:
    def __init__(self, ctx):
        import emmet
        self.ctx = ctx
        self.expand = hostile.wrap(emmet.expand, ctx)
        self.caches = {}
        self.n = 0

    def check(self, props, syntax, opts, cls, scope_arg=None):
        """props: list of (key, values, important)"""
        ctx = self.ctx
        ctx.ev(cls)
        abbr = '+'.join(k + G.write_values(v, imp) for k, v, imp in props)
        cfg = {'type': 'stylesheet', 'syntax': syntax, 'options': dict(opts), 'snippets': dict(G.USER_SNIPPETS)}
        self.n += 1
        # what an editor passes inside a rule body: the scope that admits property snippets (the result is the same as without any scope)
        scope = {0: '@@property', 1: '@@global'}.get(self.n % 5) if scope_arg is None else scope_arg
        if scope:
            cfg['context'] = {'name': scope}
        if self.n % 400:
            cfg['cache'] = self.caches.setdefault((syntax, scope, repr(sorted(opts.items(), key=repr))), {})
        case = {'abbr': abbr, 'syntax': syntax, 'options': opts, 'scope': scope or '',
                'props': [[k, v, imp] for k, v, imp in props]}
        r = core.call(self.expand, abbr, cfg)
        ctx.mon('oracle:line-shape')
        if r[0] == 'exc':
            ctx.violation('exception', case, {'exc': list(core.exc_site(r[1])), 'msg': str(r[1])[:100]})
            return
        out = r[1]
        lines = out.split('\n')
        between, after = SYNTAX_FMT[syntax]
        if len(lines) != len(props):
            ctx.violation('line-count', case, {'output': out[:300], 'expected_lines': len(props)})
            return
        short_hex = opts.get('stylesheet.shortHex', True)
        for (key, values, imp), line in zip(props, lines):
            prop, _ = G.PROPS[key]
            head = prop + between
            if not line.startswith(head) or not line.endswith(after):
                ctx.violation('line-shape', case, {'line': line, 'expected_prefix': head, 'expected_suffix': after})
                return
            body = line[len(head):len(line) - len(after) if after else len(line)]
            if imp:
                if not body.endswith(' !important'):
                    ctx.violation('important-missing', case, {'line': line})
                    return
                body = body[:-len(' !important')]
            elif body.endswith('!important'):
                ctx.violation('important-unexpected', case, {'line': line})
                return
            toks = RE_TOK.findall(body)
            if ' '.join(toks) != body:
                ctx.violation('value-spacing', case, {'line': line, 'body': body})
                return
            if len(toks) != len(values):
                ctx.violation('value-count', case, {'line': line, 'expected_values': len(values), 'actual': toks})
                return
            for v, tok in zip(values, toks):
                e = G.expected_value(v, prop, opts)
                if e[0] == 'text':
                    ctx.mon('oracle:number-unit')
                    if tok != e[1]:
                        ctx.violation('number-or-unit', case, {'line': line, 'value': v, 'expected': e[1], 'actual': tok})
                        return
                    ctx.state('number', '%s unit=%s unitless=%s' % ('float' if v['float'] else 'int', v['unit'], G.PROPS[key][1]))
                else:
                    ctx.mon('oracle:colour-value')
                    rgba = e[1]
                    got, form = parse_colour(tok)
                    if got is None:
                        ctx.violation('colour-form', case, {'line': line, 'value': v, 'actual': tok, 'why': 'unreadable colour'})
                        return
                    if got[:3] != rgba[:3] or abs(got[3] - rgba[3]) > 1e-9:
                        ctx.violation('colour-value-changed', case, {'line': line, 'value': v, 'expected_rgba': rgba, 'actual': tok})
                        return
                    shortable = all(c % 17 == 0 for c in rgba[:3])
                    if rgba == (0, 0, 0, 0.0):
                        want = 'transparent'
                    elif rgba[3] != 1.0:
                        want = 'rgba'
                    else:
                        want = 'short' if (short_hex and shortable) else 'long'
                    if form != want:
                        ctx.violation('colour-form', case, {'line': line, 'value': v, 'expected_form': want, 'actual': tok})
                        return
                    ctx.state('colour', 'digits=%d alpha=%s form=%s' % (len(v['hex']), v['alpha'], form))
        if sum(len(v) for _, v, _ in props) >= 2 or any(x['k'] == 'color' for _, v, _ in props for x in v):
            ctx.seen((abbr, syntax, repr(sorted(opts.items(), key=repr))))
        if len(ctx.samples) < 3 and len(abbr) > 22:
            ctx.sample({'abbreviation': abbr, 'syntax': syntax, 'options': opts, 'output': out})


def shards(tier, seed):
    n = 8 if tier == 'quick' else 16
    b = BOUNDS[tier]
    return [dict(b, part=p, nparts=n, seed=seed, tier=tier) for p in range(n)]


def num(form):
    (txt, val, is_float), unit = form
    return {'k': 'num', 'txt': txt, 'val': val, 'float': is_float, 'unit': unit}


def neg(v):
    if v['val'] == 0:
        return v
    return dict(v, txt='-' + v['txt'], val=-v['val'])


def run_shard(desc, ctx):
    mon = Mon(ctx)
    import importlib
    colmod = importlib.import_module('emmet.stylesheet.color')

    def color_return(frame, retval):
        tok = frame.f_locals.get('token')
        if tok is None or not isinstance(retval, str):
            return
        ctx.mon('probe:color-roundtrip')
        got, _ = parse_colour(retval)
        if got is None or got[:3] != (tok.r, tok.g, tok.b) or abs(got[3] - float(tok.a)) > 1e-7:
            ctx.anomaly('probe:color-return', {'probe': 'stylesheet.color.color', 'token': [tok.r, tok.g, tok.b, tok.a], 'returned': retval})

    pr = probes.Probes().add('emmet.stylesheet.color:color', None, color_return).add('emmet.stylesheet.color:to_hex') \
        .add('emmet.stylesheet:resolve_numeric_value').install()
    if not pr.installed or pr.unavailable:
        ctx.notes['probes'] = 'unavailable: %r' % (pr.unavailable,)
        ctx.mon('probe:color-roundtrip', 1)
    part, nparts = desc['part'], desc['nparts']
    try:
        # ---- colours
        idx = 0
        hexes = [''.join(t) for L in (1, 2, 3) for t in itertools.product('0123456789abcdef', repeat=L)]
        rng6 = __import__('random').Random(desc['seed'] * 7919 + 17)
        chans = ['00', '01', '0a', '0f', '10', '11', 'ff', 'cc', 'e7', 'b0', '0b', '99', '7f', '80', 'fe', '22']
        hexes += [''.join(t) for t in itertools.product(chans, repeat=3)]      # 4096 six-digit colours incl. channels < 0x10
        for h in hexes:
            for alpha in (None, '.1', '.25', '.5', '.75'):
                for sh in (True, False):
                    idx += 1
                    if idx % nparts != part:
                        continue
                    hh = h.upper() if idx % 5 == 0 else h
                    v = {'k': 'color', 'hex': hh, 'alpha': alpha}
                    key = ('c', 'bgc', 'bdc', 'bd')[idx % 4]
                    mon.check([(key, [v], idx % 11 == 0)], ('css', 'stylus', 'sass', 'scss', 'less', 'sss')[idx % 6], {'stylesheet.shortHex': sh}, 'enum:colour')
        # ---- value lists
        idx = 0
        for L in range(1, desc['list_len'] + 1):
            for forms in itertools.product(VALUE_FORMS, repeat=L):
                idx += 1
                if idx % nparts != part:
                    continue
                vals = [num(f) for f in forms]
                if idx % 3 == 0:
                    vals = [neg(v) if (idx >> i) & 1 else v for i, v in enumerate(vals)]
                key = ('p', 'lh', 'm', 'z', 'w', 'op')[idx % 6]
                mon.check([(key, vals, idx % 7 == 0)], ('css', 'scss', 'sass', 'stylus', 'less', 'sss')[idx % 6], {}, 'enum:values')
        idx = 0
        off = desc['seed'] % desc['stride']
        for i0, f0 in enumerate(VALUE_FORMS):
          if i0 % nparts != part:
            continue
          for rest in itertools.product(VALUE_FORMS, repeat=desc['sample_len'] - 1):
            idx += 1
            if idx % desc['stride'] != off:
                continue
            forms = (f0,) + rest
            vals = [num(f) for f in forms]
            if idx % 2:
                vals = [neg(v) if (idx >> i) & 1 else v for i, v in enumerate(vals)]
            mon.check([(('p', 'fw', 'm', 'fx')[idx % 4], vals, False)], 'css', {}, 'enum:values-sampled')
        # ---- random
        rng = ctx.rng
        optpool = []
        for _ in range(14):        # a pool of option sets per shard, so that the snippet cache of each set is reused
            opts = {}
            if rng.random() < 0.5:
                opts['stylesheet.intUnit'] = rng.choice(['px', 'pt', 'rem', ''])
            if rng.random() < 0.5:
                opts['stylesheet.floatUnit'] = rng.choice(['em', 'rem', '%', ''])
            if rng.random() < 0.3:
                opts['stylesheet.unitAliases'] = rng.choice([{'x': 'vw', 'e': 'em'}, {'p': 'pc', 'r': 'rad', 'x': 'ex', 'e': 'em'}, {},
                                                            {'x': '', 'e': 'em', 'p': '%'}, {'p': '', 'r': '', 'x': 'ex'}])       # (an alias may stand for NO unit)
            if rng.random() < 0.5:
                opts['stylesheet.shortHex'] = rng.random() < 0.5
            optpool.append(opts)
        for _ in range(desc['random']):
            props = []
            for _ in range(rng.randint(1, 3)):
                key = rng.choice(list(G.PROPS))
                vals = [G.num_value(rng) if rng.random() < 0.7 else G.color_value(rng) for _ in range(rng.randint(1, 6) if rng.random() < 0.9 else rng.randint(7, 14))]
                props.append((key, vals, rng.random() < 0.2))
            opts = rng.choice(optpool)
            mon.check(props, rng.choice(list(SYNTAX_FMT)), opts, 'random')
    finally:
        pr.uninstall()
    for k, v in pr.reach().items():
        ctx.mon('reach:' + k, v)


def replay(case, ctx):
    if 'props' not in case:
        return
    Mon(ctx).check([(k, v, imp) for k, v, imp in case['props']], case['syntax'], case['options'], 'replay', case.get('scope', ''))


CLASSIFIERS = {}
