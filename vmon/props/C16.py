"""C16 - scanners and matchers are total and report only well-formed ranges.

Refuting events: an exception escaping html_matcher.scan/match/balanced_*/attributes or
css_matcher.scan/match/balanced_*/split_value; a reported range outside
0 <= start <= end <= len(source); an HTML tag range that is not `<name...>`; tags out of
order or overlapping; match() != balanced_outward()[0]; outward entries that do not
strictly contain each other and the position; inward entries that are not nested."""
from .. import core, enum, gen_css, gen_html, stretch

ID = 'C16'
RULE = ('cases = (language, source string) checked at every position -1..len+1 (HTML: both xml modes); exhaustive strings up to the bound over '
        'an 11-symbol character alphabet and a multi-character token alphabet per language; delete / duplicate / truncate / insert mutations '
        'at every offset of generated documents; random strings <= 200. Non-trivial = the scanner reported at least one token; distinct by (language, source)')
ASSUMPTIONS = ['only structural well-formedness is judged here (correctness against ground truth is C09/C10/C17)',
               'the delimiter argument of css scan callbacks is not a range (-1 = absent) and is only recorded',
               'scanner cursors are observed only through reported ranges']
HTML_ALPHA = ['<', '>', '/', 'a', 'b', '=', '"', "'", ' ', '!', '-']
HTML_TOK = ['<a', '<b', '</a>', '</b>', '>', '/>', ' x=', '"', "'", '<!--', '-->', '<br', '<script>', '</script>', '<![CDATA[', ']]>',
            '<?', '?>', 't', ' ', '{', '}', '\\', '</br>', '<br/>', '<script a="', '">', '<script', ' type']
CSS_ALPHA = ['a', ':', ';', '{', '}', '"', '\\', ' ', '(', '/', '*', ')']
CSS_TOK = ['a', 'b:', ' ', ';', '{', '}', ':', '"', "'", '\\', '(', ')', '/*', '*/', '\n', '@m', '::', '$v', 'url(', ',', '-']
BOUNDS = {'quick': {'char_len': 4, 'tok_len': 3, 'sampled_len': 5, 'stride': 8, 'tok_sampled_len': 4, 'tok_stride': 40},
          'thorough': {'char_len': 6, 'tok_len': 3, 'sampled_len': 7, 'stride': 40, 'tok_sampled_len': 4, 'tok_stride': 2}}
FLOORS = {'quick': {'html:enum': 25000, 'css:enum': 30000, 'html:enum-sampled': 15000, 'css:enum-sampled': 25000, 'html:mutation': 3000, 'css:mutation': 3000, 'html:random': 300, 'css:random': 300},
          'thorough': {'html:enum': 1900000, 'css:enum': 3000000, 'html:enum-sampled': 400000, 'css:enum-sampled': 800000, 'html:mutation': 80000, 'css:mutation': 80000, 'html:random': 10000, 'css:random': 10000}}
REQUIRED_MONITORS = ['oracle:html-scan-ranges', 'oracle:html-match-structure', 'oracle:css-scan-ranges', 'oracle:css-match-ranges',
                     'oracle:split-value', 'oracle:attributes']


def describe(tier):
    b = BOUNDS[tier]
    return {'exhaustive': True, 'bounds': {'char_alphabet_max_len': b['char_len'], 'token_alphabet_max_len': b['tok_len'],
                                           'char_alphabet_sampled_len': '%d (every %dth string, offset = seed)' % (b['sampled_len'], b['stride']),
                                           'html_alphabet': HTML_ALPHA, 'html_tokens': HTML_TOK, 'css_alphabet': CSS_ALPHA, 'css_tokens': CSS_TOK,
                                           'positions': '-1..len+1', 'note': 'enumerations complete up to the bounds; mutation/random parts are samples'}}


def shards(tier, seed):
    n = 8 if tier == 'quick' else 16
    b = BOUNDS[tier]
    out = []
    for p in range(n):
        for lang in ('html', 'css'):
            out.append({'kind': 'enum', 'lang': lang, 'alpha': 'char', 'part': p, 'nparts': n, 'maxlen': b['char_len'],
                        'sampled_len': b['sampled_len'], 'stride': b['stride'], 'offset': seed % b['stride']})
            out.append({'kind': 'enum', 'lang': lang, 'alpha': 'tok', 'part': p, 'nparts': n, 'maxlen': b['tok_len'],
                        'sampled_len': b['tok_sampled_len'], 'stride': b['tok_stride'], 'offset': seed % b['tok_stride']})
    for p in range(8 if tier == 'quick' else 16):
        out.append({'kind': 'mutation', 'ndocs': 3 if tier == 'quick' else 40})
    return out


class Mon:
    def __init__(self, ctx):
        from emmet import css_matcher, html_matcher
        from emmet.html_matcher import ScannerOptions
        self.ctx = ctx
        self.h = html_matcher
        self.c = css_matcher
        self.special = ScannerOptions().special

    # ------------------------------------------------------------------ HTML
    def html(self, s, cls, positions=None):
        ctx = self.ctx
        h = self.h
        ctx.ev(cls)
        n = len(s)
        case = {'lang': 'html', 's': s}
        toks = []
        r = core.call(h.scan, s, lambda name, t, a, b: toks.append((name, t, a, b)), self.special)
        ctx.mon('oracle:html-scan-ranges')
        if r[0] == 'exc':
            ctx.violation('exception', dict(case, fn='html_matcher.scan'), {'exc': list(core.exc_site(r[1]))})
        else:
            prev = 0
            gram = '^'
            for name, t, a, b in toks:
                gram = gram[-2:] + str(t)
                if not (isinstance(a, int) and isinstance(b, int) and 0 <= a <= b <= n):
                    ctx.violation('range', dict(case, fn='html_matcher.scan'), {'token': [name, t, a, b], 'len': n})
                    continue
                if b - a < 2 or s[a] != '<' or s[b - 1] != '>':
                    ctx.violation('tag-shape', dict(case, fn='html_matcher.scan'), {'token': [name, t, a, b], 'text': s[a:b]})
                off = a + 2 if t == 2 else a + 1
                if s[off:off + len(name)] != name or not name:
                    ctx.violation('tag-name', dict(case, fn='html_matcher.scan'), {'token': [name, t, a, b], 'text': s[a:b]})
                if a < prev:
                    ctx.violation('tag-order', dict(case, fn='html_matcher.scan'), {'token': [name, t, a, b], 'previous_end': prev})
                prev = b
            ctx.state('html:callback-types', gram)
            if toks:
                ctx.seen(('h', s))
                if len(ctx.samples) < 2 and len(toks) >= 2 and len(s) > 8:
                    ctx.sample({'language': 'html', 'source': s[:120], 'scan_callbacks': [list(t) for t in toks[:6]], 'positions_checked': '-1..%d' % (n + 1)})
        ctx.mon('oracle:attributes')
        for name in (None, 'a'):
            r = core.call(h.attributes, s, name)
            if r[0] == 'exc':
                ctx.violation('exception', dict(case, fn='html_matcher.attributes', name=name), {'exc': list(core.exc_site(r[1]))})
                continue
            for at in r[1]:
                ok = isinstance(at.name_start, int) and isinstance(at.name_end, int) and 0 <= at.name_start <= at.name_end <= n
                if ok and at.value is not None:
                    ok = isinstance(at.value_start, int) and isinstance(at.value_end, int) and 0 <= at.value_start <= at.value_end <= n
                if not ok:
                    ctx.violation('range', dict(case, fn='html_matcher.attributes', name=name), {'attr': at.to_json(), 'len': n})
        for pos in (positions if positions is not None else range(-1, n + 2)):
            for xml in (False, True):
                opt = {'xml': xml}
                ctx.mon('oracle:html-match-structure')
                rm = core.call(h.match, s, pos, opt)
                ro = core.call(h.balanced_outward, s, pos, opt)
                ri = core.call(h.balanced_inward, s, pos, opt)
                pc = dict(case, pos=pos, xml=xml)
                bad = False
                for fn, r in (('match', rm), ('balanced_outward', ro), ('balanced_inward', ri)):
                    if r[0] == 'exc':
                        ctx.violation('exception', dict(pc, fn='html_matcher.' + fn), {'exc': list(core.exc_site(r[1]))})
                        bad = True
                if bad:
                    continue
                m, o, i = rm[1], ro[1], ri[1]

                def rng(t):
                    return (t.open[0], (t.close or t.open)[1])
                for fn, lst in (('match', [m] if m else []), ('balanced_outward', o), ('balanced_inward', i)):
                    for t in lst:
                        for rr in (t.open, t.close):
                            if rr is not None and not (0 <= rr[0] <= rr[1] <= n):
                                ctx.violation('range', dict(pc, fn='html_matcher.' + fn), {'range': list(rr), 'len': n})
                                bad = True
                        if t.close is not None and not (t.open[1] <= t.close[0]):
                            ctx.violation('range', dict(pc, fn='html_matcher.' + fn), {'open': list(t.open), 'close': list(t.close)})
                            bad = True
                if bad:
                    continue
                if (m is None) != (not o):
                    ctx.violation('match-vs-outward', pc, {'match': m and [m.name, m.open, m.close], 'outward': [[t.name, t.open, t.close] for t in o][:3]})
                elif m and (m.name, m.open, m.close) != (o[0].name, o[0].open, o[0].close):
                    ctx.violation('match-vs-outward', pc, {'match': [m.name, m.open, m.close], 'outward0': [o[0].name, o[0].open, o[0].close]})
                for x, y in zip(o, o[1:]):
                    if not (rng(y)[0] <= rng(x)[0] and rng(x)[1] <= rng(y)[1] and rng(x) != rng(y)):
                        ctx.violation('outward-nesting', pc, {'ranges': [rng(t) for t in o]})
                        break
                for t in o:
                    if not (rng(t)[0] < pos < rng(t)[1]):
                        ctx.violation('outward-position', pc, {'range': rng(t)})
                        break
                for x, y in zip(i, i[1:]):
                    if not (rng(x)[0] <= rng(y)[0] and rng(y)[1] <= rng(x)[1]):
                        ctx.violation('inward-nesting', pc, {'ranges': [rng(t) for t in i]})
                        break
                if m is not None:
                    for at in m.attributes:
                        if not (0 <= at.name_start <= at.name_end <= n) or s[at.name_start:at.name_end] != at.name:
                            ctx.violation('attribute-slice', pc, {'attr': at.to_json()})
                        elif at.value is not None and (not (0 <= at.value_start <= at.value_end <= n) or s[at.value_start:at.value_end] != at.value):
                            ctx.violation('attribute-slice', pc, {'attr': at.to_json()})
                ctx.state('html:depth', 'outward=%d inward=%d' % (min(len(o), 6), min(len(i), 6)))

    # ------------------------------------------------------------------- CSS
    def css(self, s, cls, positions=None):
        ctx = self.ctx
        c = self.c
        ctx.ev(cls)
        n = len(s)
        case = {'lang': 'css', 's': s}
        toks = []
        r = core.call(c.scan, s, lambda t, a, b, d: toks.append((t, a, b, d)))
        ctx.mon('oracle:css-scan-ranges')
        if r[0] == 'exc':
            ctx.violation('exception', dict(case, fn='css_matcher.scan'), {'exc': list(core.exc_site(r[1]))})
        else:
            gram = '^'
            for t, a, b, d in toks:
                gram = gram[-12:] + t[0] + t[8:9]
                if not (isinstance(a, int) and isinstance(b, int) and 0 <= a <= b <= n):
                    ctx.violation('range', dict(case, fn='css_matcher.scan'), {'token': [t, a, b, d], 'len': n})
                ctx.state('css:delimiter', 'absent' if d == -1 else ('in-range' if isinstance(d, int) and 0 <= d <= n else 'out-of-range'))
            ctx.state('css:callback-types', gram)
            if toks:
                ctx.seen(('c', s))
                if len(ctx.samples) < 4 and len(toks) >= 3 and len(s) > 8:
                    ctx.sample({'language': 'css', 'source': s[:120], 'scan_callbacks': [list(t) for t in toks[:6]]})
        ctx.mon('oracle:split-value')
        r = core.call(c.split_value, s)
        if r[0] == 'exc':
            ctx.violation('exception', dict(case, fn='css_matcher.split_value'), {'exc': list(core.exc_site(r[1]))})
        else:
            prev = 0
            for a, b in r[1]:
                if not (0 <= a <= b <= n) or a < prev:
                    ctx.violation('range', dict(case, fn='css_matcher.split_value'), {'range': [a, b], 'len': n, 'all': [list(x) for x in r[1]][:8]})
                    break
                prev = b
        for pos in (positions if positions is not None else range(-1, n + 2)):
            ctx.mon('oracle:css-match-ranges')
            pc = dict(case, pos=pos)
            rm = core.call(c.match, s, pos)
            if rm[0] == 'exc':
                ctx.violation('exception', dict(pc, fn='css_matcher.match'), {'exc': list(core.exc_site(rm[1]))})
            elif rm[1] is not None:
                m = rm[1]
                ok = all(isinstance(x, int) for x in (m.start, m.end, m.body_start, m.body_end)) and \
                    0 <= m.start <= m.end <= n and 0 <= m.body_start <= m.body_end <= n
                if not ok:
                    ctx.violation('range', dict(pc, fn='css_matcher.match'), {'result': m.to_json(), 'len': n})
            for fn in ('balanced_outward', 'balanced_inward'):
                r = core.call(getattr(c, fn), s, pos)
                if r[0] == 'exc':
                    ctx.violation('exception', dict(pc, fn='css_matcher.' + fn), {'exc': list(core.exc_site(r[1]))})
                    continue
                for rr in r[1]:
                    if not (isinstance(rr[0], int) and isinstance(rr[1], int) and 0 <= rr[0] <= rr[1] <= n):
                        ctx.violation('range', dict(pc, fn='css_matcher.' + fn), {'range': list(rr), 'len': n, 'all': [list(x) for x in r[1]][:8]})
                        break

    def check(self, lang, s, cls, rng=None):
        positions = None
        if rng is not None and len(s) > 48:
            # long mutated documents: boundary positions + a seeded sample (enumerations use every position)
            n = len(s)
            positions = sorted(set([-1, 0, 1, n - 1, n, n + 1] + [rng.randint(0, n) for _ in range(6)]))
        if lang == 'html':
            self.html(s, cls, positions)
        else:
            self.css(s, cls, positions)


def mutants_of(d, rng, chars):
    out = []
    L = len(d)
    step = 1 if L <= 60 else 2
    for i in range(0, L + 1, step):
        out.append(d[:i])
        out.append(d[:i] + d[i + 1:])
        out.append(d[i:])
        out.append(d[:i] + rng.choice(chars) + d[i:])
        out.append(d[:i] + d[i:i + 3] + d[i:])
    return out


def run_shard(desc, ctx):
    mon = Mon(ctx)
    if desc['kind'] == 'enum':
        lang = desc['lang']
        if desc['alpha'] == 'char':
            alpha = HTML_ALPHA if lang == 'html' else CSS_ALPHA
        else:
            alpha = HTML_TOK if lang == 'html' else CSS_TOK
        for s in enum.strings(alpha, desc['maxlen'], desc['part'], desc['nparts']):
            mon.check(lang, s, lang + ':enum')
        if desc.get('sampled_len'):
            for s in enum.strings(alpha, desc['sampled_len'], desc['part'], desc['nparts'], minlen=desc['sampled_len'],
                                  stride=desc['stride'], offset=desc['offset']):
                mon.check(lang, s, lang + ':enum-sampled')
        return
    rng = ctx.rng
    # near misses (vmon/stretch.py): long runs of ordinary characters inside the constructs the scanners read with their own loops or patterns -
    # a string left open with a backslash at the end of the file, a string continued over a line break, a comment, a tag name, an attribute value
    for tpl in ['a { content: "%s\\', "a{b:'%s\\", 'a { b: "%s\\\nthen"; c: d }', 'a { b: "%s\\\r\nthen" }', '"%s\\', 'a { /* %s', 'a { b: url(%s', '@media (%s { a { b: c } }',
                'a { %s: x; y: z }', '%s { a: b }', 'a { b: %s }']:
        for _ in range(3):
            mon.check('css', tpl.replace('%s', stretch.near_miss(rng)), 'css:near-miss-run', rng)
    for tpl in ['<%s', '<a %s', '<a b="%s', '<a b=%s>', '<!-- %s', '<a><%s></a>', '<%s/>x', '</%s', '<a %s=1 c>t</a>', '<?%s', '<script>%s', '<a b={%s>']:
        for _ in range(3):
            mon.check('html', tpl.replace('%s', stretch.near_miss(rng)), 'html:near-miss-run', rng)
    for k in range(desc['ndocs']):
        # a document while it is being typed: cut right after EACH tag (after the open tag of a script / style element nothing is left to skip)
        for _ in range(6):
            full, recs = gen_html.gen_doc(rng, xml=(k % 3 == 0), max_depth=3, max_children=3, max_top=2)
            if len(full) > 400:
                continue
            for r in recs:
                for cut in (r['open'][1], (r['close'] or r['open'])[1]):
                    mon.check('html', full[:cut], 'html:mutation', rng)
                    ctx.ev('html:cut-after-tag')
        src, _ = gen_html.gen_doc(rng, xml=(k % 3 == 0), max_depth=2, max_children=2, max_top=1)
        if len(src) > 120:
            src = src[:120]
        for m in mutants_of(src, rng, '<>/"\'= !-?[]{}\\'):
            mon.check('html', m, 'html:mutation', rng)
        src, _ = gen_css.gen_sheet(rng, max_top=2, max_depth=2, max_items=2, p_sip=0.1, allow_nosemi=(k % 2 == 0))
        if len(src) > 120:
            src = src[:120]
        for m in mutants_of(src, rng, '{}:;"\'\\()/* @$-'):
            mon.check('css', m, 'css:mutation', rng)
        for _ in range(40):
            L = rng.randint(6, 200)
            mon.check('html', ''.join(rng.choice(HTML_TOK + HTML_ALPHA) for _ in range(L // 3 + 1)), 'html:random', rng)
            mon.check('css', ''.join(rng.choice(CSS_TOK + CSS_ALPHA) for _ in range(L // 2 + 1)), 'css:random', rng)


def replay(case, ctx):
    Mon(ctx).check(case['lang'], case['s'], 'replay')


def _mech(rec, fn_prefix, pred):
    return rec['case'].get('fn', '').startswith(fn_prefix) and pred(rec)


CLASSIFIERS = {}
