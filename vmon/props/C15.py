"""C15 - HAML, Pug and Slim output has one line per element at its depth.

Refuting events: an output line whose indentation or header does not match the element at
that document position of the reference tree; multi-line text not laid out one line per text
line one level deeper; the tree recovered from the indentation differs from the reference
tree or from the tree of the HTML rendering of the same abbreviation."""
import re

from .. import core, gen_abbr, hostile, outparse, probes, ref_tree, stretch

ID = 'C15'
RULE = ('cases = (abbreviation from a generated written tree, syntax in haml/pug/slim, indent string); trees up to depth 4 with groups, climbs, repeaters, '
        'ids/classes (no blanks), attributes, single- and multi-line text, self-closing leaves, nameless elements with implicit names; indent in tab / 2 / 3 / 4 '
        'blanks / blank+tab / "--"; 4% narrow towers 14-70 levels deep. Three oracles per case: line-by-line header + indentation, tree-from-indentation == reference tree, == tree of the HTML rendering. '
        'Non-trivial = at least two elements; distinct by (abbreviation, syntax, indent)')
ASSUMPTIONS = ['ids and class names without blanks (names a shorthand cannot spell - dots, colons, slashes - are expected in the attribute list); a text node stands inside an element or, at the top level, right after one (a line of its own); text without line-leading "|" and without trailing " |"',
               'a leaf without text ends with the caret position: trailing blanks of a header line are ignored',
               'attribute values are printed between double quotes (attribute options are C03)']
FLOORS = {'quick': {'case': 22000, 'tower': 600, 'builtin': 3000}, 'thorough': {'case': 280000, 'tower': 9000, 'builtin': 3000}}
REQUIRED_MONITORS = ['oracle:header-grammar', 'oracle:lines', 'oracle:tree-from-indent', 'oracle:tree-equals-html', 'oracle:one-tree-rendered-twice']
N = {'quick': 2500, 'thorough': 19000}
SYNTAXES = ['haml', 'pug', 'slim']
NAMES = ['div', 'p', 'span', 'ul', 'li', 'section', 'x-y', 'table', 'tr', 'a2', 'h1', 'em', 'tbody', 'ol', 'article', 'ns:t', 'b']
TEXTS = ['t1', 'hello world', 'l1\nl2', 'a\nbb\nccc', 'x', 'one\ntwo three\n4', 'one\n\nthree', 'a\n\n\nb', 'x\n\ny z\n\nw']


def describe(tier):
    return {'exhaustive': False, 'bounds': {'abbreviations_per_shard': N[tier], 'max_depth': 4, 'syntaxes': SYNTAXES}}


def shards(tier, seed):
    n = 10 if tier == 'quick' else 16
    return [{'n': N[tier]} for _ in range(n)] + [{'builtin': True}]


def rand_text(rng):
    words = ['a', 'bb', 'ccc', 'dddd', 'x y', 'é', '12345', 'w-w', 'Q.']
    return '\n'.join(' '.join(rng.choice(words) for _ in range(rng.randint(1, 3))) for _ in range(rng.choice([1, 2, 2, 3, 4, 5])))


def rand_attr(rng, k):
    "(name, printed value | True for a boolean attribute, spelling in the abbreviation)"
    name = rng.choice(['d%d', 'data-x%d', 'K%d', 'ns:a%d', 'a_b%d', 'v-on:e%d']) % k
    if k == 1 and rng.random() < 0.12:
        name = rng.choice(['CLASS', 'Class', 'ID', 'Id', 'classes', 'idx', 'className'])      # only the exact names class / id are primary
    r = rng.random()
    if r < 0.45:
        v = 'v%d' % rng.randint(1, 9)
        return (name, '"%s"' % v, '[%s=%s]' % (name, v))
    if r < 0.6:
        return (name, True, '[%s.]' % name)
    if r < 0.7:
        return (name, '""', rng.choice(['[%s]', '[%s=""]']) % name)
    if r < 0.85:
        v = rng.choice(['x y', 'a  b', ' p', "it's", 'a=b', 'x>y', '(z)', '[0]', '1+2', 'ü é'])
        return (name, '"%s"' % v, '[%s="%s"]' % (name, v))
    v = rng.choice(['v', 'a.b', 'f(1)', 'x y'])
    return (name, '{%s}' % v, '[%s={%s}]' % (name, v))


def gen(rng, depth=0, max_depth=3):
    nodes = []
    for _ in range(rng.randint(1, 3) if max_depth <= 4 else rng.choice([1, 1, 2])):
        if depth < max_depth and rng.random() < 0.15:
            n = gen_abbr.Node('g')
            n.children = gen(rng, depth + 1, max_depth)
            if rng.random() < 0.3:
                n.rep = rng.randint(2, 3)
        else:
            n = gen_abbr.Node('e')
            info = {'id': None, 'classes': [], 'attrs': [], 'id_first': rng.random() < 0.7}
            n.name = rng.choice(NAMES + [None, None])
            if rng.random() < 0.4 or n.name is None:
                info['classes'] = ['c%d' % rng.randint(1, 5) for _ in range(rng.choice([1, 1, 2, 2, 3, 4]))]
            if rng.random() < 0.25:
                info['id'] = 'i%d' % rng.randint(1, 5)
            if rng.random() < 0.3:
                info['attrs'] = [rand_attr(rng, k) for k in range(1, rng.choice([1, 1, 2, 2, 3, 5]) + 1)]
            if not info['classes'] and n.name is not None and rng.random() < 0.08:
                info['attrs'] = [('class', '""', rng.choice(['[class]', '[class=""]']))] + info['attrs']       # nothing to print as a shorthand: an ordinary attribute
            if not info['id'] and rng.random() < 0.06:
                info['attrs'] = info['attrs'] + [('id', '""', rng.choice(['[id]', '[id=""]']))]
            if rng.random() < 0.07:
                # names no `.class` / `#id` shorthand can spell (utility classes with dots, colons, slashes; dotted ids): written as ordinary attributes
                if info['classes'] and rng.random() < 0.7:
                    info['classes'][rng.randrange(len(info['classes']))] = rng.choice(['p-1.5', 'md:flex', 'w-1/2', 'a.b', 'x:y-z', 'top-[3px]'.replace('[', '').replace(']', '')])
                elif info['id']:
                    info['id'] = rng.choice(['user.name', 'a:b', 'x.1'])
            ids = ['#' + info['id']] if info['id'] else []
            cls = ['.' + c for c in info['classes']]
            if any(not RE_SHORT.match(c) for c in info['classes']):
                cls = ['[class="%s"]' % ' '.join(info['classes'])]
            if info['id'] and not RE_SHORT.match(info['id']):
                ids = ['[id=%s]' % info['id']]
            if len(info['classes']) >= 2 and rng.random() < 0.15:
                # the same class list written as a bracket attribute whose value mixes text and tabstop fields (blanks next to a field separate all the same)
                k = rng.randrange(len(info['classes']))
                parts = [('${%d:%s}' % (j + 1, c) if (j == k or rng.random() < 0.3) else c) for j, c in enumerate(info['classes'])]
                cls = ['[class="%s"]' % ' '.join(parts)]
            n.mentions = (ids + cls if info['id_first'] else cls + ids) + [a[2] for a in info['attrs']]
            if rng.random() < 0.3:
                n.text = rng.choice(TEXTS) if rng.random() < 0.5 else rand_text(rng)
            if rng.random() < 0.2:
                n.rep = rng.randint(2, 3)
            if depth < max_depth and rng.random() < (0.5 if max_depth <= 4 else 0.93):
                n.children = gen(rng, depth + 1, max_depth)
                if rng.random() < 0.15:
                    # a text node among the children (`p>{a}+b`, `p>b+{t}`): a line of its own at the children's depth
                    t = gen_abbr.Node('e')
                    t.name = None
                    t.text = rng.choice(['tx', 'two words', 'm1\nm2', 'q'])
                    t.tag = {'textnode': True}
                    n.children.insert(rng.randint(0, len(n.children)), t)
            if not n.children and n.text is None and n.name and rng.random() < 0.2:
                n.selfclose = True
            n.tag = info
        nodes.append(n)
    return nodes


def tower(rng, levels):
    "narrow and very deep: thresholds of the indentation bookkeeping lie far below the depths of ordinary trees"
    inner = gen(rng, 1, 1)
    for _ in range(levels):
        lvl = gen(rng, 1, 1)
        host = lvl[rng.randrange(len(lvl))]
        host.selfclose = False
        host.rep = 2 if rng.random() < 0.03 else None
        host.children = inner
        inner = lvl
    return inner


def expected_lines(nodes, depth, parent, out):
    "reference: one record per output element in document order"
    for n in nodes:
        for _ in range(n.rep or 1):
            if n.kind == 'g':
                expected_lines(n.children, depth, parent, out)
                continue
            if isinstance(n.tag, dict) and n.tag.get('textnode'):
                out.append({'depth': depth, 'name': None, 'info': None, 'text': n.text, 'sc': False, 'textnode': True})
                continue
            name = n.name
            if name is None:
                p = (parent or '').lower()
                name = ref_tree.IMPLICIT.get(p, 'span' if p in ref_tree.INLINE else 'div')
            out.append({'depth': depth, 'name': name, 'info': n.tag, 'text': n.text, 'sc': n.selfclose})
            expected_lines(n.children, depth + 1, name, out)


RE_SHORT = re.compile(r'^[\w-]+$')


def header(e, syntax):
    info = e['info']
    long_cls = any(not RE_SHORT.match(c) for c in info['classes'])
    long_id = bool(info['id']) and not RE_SHORT.match(info['id'])
    ids = '#' + info['id'] if info['id'] and not long_id else ''
    cls = '.' + '.'.join(info['classes']) if info['classes'] and not long_cls else ''
    primary = bool(ids or cls)
    head = ''
    if not (e['name'] == 'div' and primary):
        head = ('%' if syntax == 'haml' else '') + e['name']
    head += ids + cls if info['id_first'] else cls + ids
    attrs = list(info['attrs'])
    # what the shorthand cannot spell stands in the attribute list, in the order of mention
    extra = ([('id', '"%s"' % info['id'], None)] if long_id else []), ([('class', '"%s"' % ' '.join(info['classes']), None)] if long_cls else [])
    attrs = (extra[0] + extra[1] if info['id_first'] else extra[1] + extra[0]) + attrs
    if attrs:
        pairs = [a[0] + ('=true' if syntax == 'haml' else '') if a[1] is True else '%s=%s' % (a[0], a[1]) for a in attrs]
        if syntax == 'haml':
            head += '(' + ' '.join(pairs) + ')'
        elif syntax == 'pug':
            head += '(' + ', '.join(pairs) + ')'
        else:
            head += ' ' + ' '.join(pairs)
    if e['sc'] and syntax in ('haml', 'slim'):
        head += '/'
    return head


def check_lines(out, exp, syntax, indent):
    lines = out.split('\n')
    li = 0
    for e in exp:
        if li >= len(lines):
            return 'output ends before element %r' % e['name']
        if e.get('textnode'):
            tl = e['text'].split('\n')
            width = max(len(x) for x in tl)
            for x in tl:
                if li >= len(lines):
                    return 'output ends inside a text node'
                if syntax == 'haml':
                    want = indent * e['depth'] + (x.ljust(width) + ' |' if len(tl) > 1 else x)
                else:
                    want = indent * e['depth'] + '| ' + x
                if lines[li] != want:
                    return 'line %d: text node line %r, expected %r' % (li, lines[li], want)
                li += 1
            continue
        line = lines[li]
        li += 1
        k = 0
        while line.startswith(indent):
            line = line[len(indent):]
            k += 1
        if k != e['depth']:
            return 'line %d: indentation %d, element depth %d: %r' % (li - 1, k, e['depth'], lines[li - 1])
        h = header(e, syntax)
        t = e['text']
        if t is not None and '\n' not in t:
            want = h + ' ' + t
            if line != want:
                return 'line %d: %r, expected %r' % (li - 1, line, want)
        else:
            if line.rstrip(' ') != h:
                return 'line %d: header %r, expected %r' % (li - 1, line, h)
        if t is not None and '\n' in t:
            tl = t.split('\n')
            width = max(len(x) for x in tl)
            for x in tl:
                if li >= len(lines):
                    return 'output ends inside the text of %r' % e['name']
                l2 = lines[li]
                li += 1
                # the whole line is compared: a text line may itself begin with blanks (padding of an empty haml line)
                want = indent * (e['depth'] + 1) + (x.ljust(width) + ' |' if syntax == 'haml' else '| ' + x)
                if l2 != want and not (syntax != 'haml' and x == '' and l2 == want.rstrip(' ')):
                    return 'line %d: text line %r, expected %r (depth %d)' % (li - 1, l2, want, e['depth'] + 1)
    if li != len(lines):
        return 'extra output lines from %d: %r' % (li, lines[li:li + 2])
    return None


RE_NAME = re.compile(r'[A-Za-z][\w:-]*')


def header_problem(out, syntax, indent):
    """every element line begins with a name and / or non-empty #id / .class shorthands: a bare `#` or `.`, or a line that begins with the
    attribute list or with nothing, is not an element of the syntax (returns None or the offending line)"""
    for line in out.split('\n'):
        body = line
        while body.startswith(indent):
            body = body[len(indent):]
        if (syntax != 'haml' and body.startswith('| ')) or body.rstrip(' ') == '|' or (syntax == 'haml' and body.endswith(' |')):
            continue
        if body.startswith('<') or body.startswith('doctype ') or (syntax == 'haml' and body[:1] not in '%.#' and body.strip()):
            continue        # raw text (doctype, comment snippets, a haml text line)
        head = re.match(r'[^\s(/]*', body).group(0)
        if not head or re.search(r'[#.](?=[#.]|$)', head) or (syntax == 'haml' and head == '%'):
            return line
    return None


def tree_from_indent(out, syntax, indent):
    "generic reader: rebuilds (name, children) from indentation alone"
    root = []
    stack = [(-1, root)]
    for line in out.split('\n'):
        body = line
        k = 0
        while body.startswith(indent):
            body = body[len(indent):]
            k += 1
        if not body.strip():
            raise outparse.OutParseError('blank line')
        if (syntax != 'haml' and body.startswith('| ')) or (syntax == 'haml' and body.endswith(' |')) or body.rstrip(' ') == '|':
            continue        # line of a multi-line text (an empty text line is the bare marker; its haml padding may look like indentation)
        if syntax == 'haml' and body[:1] not in '%.#':
            continue        # a line of plain text
        if syntax == 'haml':
            name = RE_NAME.match(body[1:]).group(0) if body.startswith('%') else 'div'
        else:
            m = RE_NAME.match(body)
            name = m.group(0) if m else 'div'
        while stack and stack[-1][0] >= k:
            stack.pop()
        if not stack or stack[-1][0] != k - 1:
            raise outparse.OutParseError('line %r jumps from depth %d to %d' % (line, stack[-1][0] if stack else -9, k))
        node = [name, []]
        stack[-1][1].append(node)
        stack.append((k, node[1]))
    return root


def exp_tree(exp):
    root = []
    stack = [(-1, root)]
    for e in exp:
        if e.get('textnode'):
            continue
        while stack[-1][0] >= e['depth']:
            stack.pop()
        node = [e['name'], []]
        stack[-1][1].append(node)
        stack.append((e['depth'], node[1]))
    return root


def html_tree(out):
    def conv(nodes):
        return [[n[0], conv(n[2])] for n in nodes]
    return conv(outparse.tree_from_stream(outparse.tag_stream(out)))


class Mon:
    def __init__(self, ctx):
        import emmet
        self.ctx = ctx
        self.expand = hostile.wrap(emmet.expand, ctx)

    def check(self, abbr, exp, syntax, indent):
        ctx = self.ctx
        ctx.ev('case')
        case = {'abbr': abbr, 'syntax': syntax, 'indent': indent, 'expected': exp}
        r = core.call(self.expand, abbr, {'syntax': syntax, 'options': {'output.indent': indent}})
        ctx.mon('oracle:lines')
        if r[0] == 'exc':
            ctx.violation('exception', case, {'exc': list(core.exc_site(r[1])), 'msg': str(r[1])[:100]})
            return
        out = r[1]
        ctx.mon('oracle:header-grammar')
        hp = header_problem(out, syntax, indent)
        if hp is not None:
            ctx.violation('line-is-not-an-element', case, {'line': hp, 'output': out[:400]})
            return
        why = check_lines(out, exp, syntax, indent)
        if why:
            ctx.violation('line-mismatch', case, {'why': why, 'output': out[:500]})
            return
        ctx.mon('oracle:tree-from-indent')
        try:
            ti = tree_from_indent(out, syntax, indent)
        except (outparse.OutParseError, AttributeError) as e:
            ctx.violation('indentation-unreadable', case, {'why': str(e), 'output': out[:500]})
            return
        te = exp_tree(exp)
        if ti != te:
            ctx.violation('indent-tree-mismatch', case, {'from_indentation': ti, 'reference': te, 'output': out[:400]})
            return
        ctx.mon('oracle:tree-equals-html')
        rh = core.call(self.expand, abbr, {'syntax': 'html', 'options': {'output.format': False, 'output.selfClosingStyle': 'xml'}})
        if rh[0] == 'exc':
            ctx.violation('exception', dict(case, which='html rendering'), {'exc': list(core.exc_site(rh[1]))})
            return
        try:
            th = html_tree(rh[1])
        except outparse.OutParseError as e:
            ctx.violation('unparseable-output', dict(case, which='html rendering'), {'output': rh[1][:300], 'parser': str(e)})
            return
        if th != ti:
            ctx.violation('html-tree-mismatch', case, {'from_indentation': ti, 'from_html': th})
            return
        if ctx.counts['case'] % 3 == 0:
            # the same statement observed on ONE parsed tree rendered through the public two-step route: indentation syntax, HTML, and the
            # indentation syntax again - a formatter that rewrites the tree it prints shows only here
            import emmet
            from emmet.config import Config
            ctx.mon('oracle:one-tree-rendered-twice')

            def two_step():
                cfg = Config({'syntax': syntax, 'options': {'output.indent': indent}})
                tree = emmet.markup_abbreviation(abbr, cfg)
                o1 = emmet.stringify_markup(tree, cfg)
                oh = emmet.stringify_markup(tree, Config({'syntax': 'html', 'options': {'output.format': False, 'output.selfClosingStyle': 'xml'}}))
                o2 = emmet.stringify_markup(tree, cfg)
                return o1, oh, o2
            r2 = core.call(two_step)
            if r2[0] == 'exc':
                ctx.violation('exception', dict(case, which='two-step rendering'), {'exc': list(core.exc_site(r2[1]))})
                return
            o1, oh, o2 = r2[1]
            if o1 != out or o2 != out or oh != rh[1]:
                ctx.violation('tree-changed-by-rendering', case, {'first': o1[:200], 'html_of_same_tree': oh[:200], 'html_of_abbreviation': rh[1][:200], 'again': o2[:200]})
                return
        if len(exp) >= 2:
            ctx.seen((abbr, syntax, indent))
        ctx.state('shape', 'maxdepth=%d multiline=%s' % (max(e['depth'] for e in exp), any(e['text'] and '\n' in e['text'] for e in exp)))
        if len(ctx.samples) < 3 and len(exp) >= 5 and any(e['text'] and '\n' in e['text'] for e in exp):
            ctx.sample({'abbreviation': abbr, 'syntax': syntax, 'indent': indent, 'output': out[:400]})


def builtin_sweep(ctx):
    """every built-in markup snippet (the ones with empty id tabstops - select, input:text, textarea ... - included), alone and with a text /
    lorem child and an empty class: well-formed element lines, and the tree read from the indentation is the tree of the HTML rendering"""
    import emmet
    import emmet.snippets.html as RH
    keys = sorted(set(k for ks in RH.snippets for k in ks.split('|')))
    for key in keys:
        for form in ('%s', 'x-p>%s', '%s>lorem3', 'x-p>%s+{t}', 'div[class]>%s', '%s#'):
            abbr = form % key
            for syntax in SYNTAXES:
                ctx.ev('builtin')
                ctx.mon('oracle:header-grammar')
                case = {'builtin': True, 'abbr': abbr, 'syntax': syntax, 'indent': '\t'}
                r = core.call(emmet.expand, abbr, {'syntax': syntax})
                rh = core.call(emmet.expand, abbr, {'syntax': 'html', 'options': {'output.format': False, 'output.selfClosingStyle': 'xml'}})
                if r[0] == 'exc' or rh[0] == 'exc':
                    if (r[0] == 'exc') != (rh[0] == 'exc'):
                        ctx.violation('exception', case, {'exc': list(core.exc_site(r[1] if r[0] == 'exc' else rh[1]))})
                    continue
                out = r[1]
                hp = header_problem(out, syntax, '\t')
                if hp is not None:
                    ctx.violation('line-is-not-an-element', case, {'line': hp, 'output': out[:300]})
                    continue
                try:
                    o2 = '\n'.join(l for l in out.split('\n') if not l.strip().startswith('<') and not l.strip().startswith('doctype '))
                    ti = tree_from_indent(o2, syntax, '\t') if o2.strip() else []
                    th = html_tree(re.sub(r'<!DOCTYPE[^>]*>', '', rh[1]))
                except (outparse.OutParseError, AttributeError) as e:
                    ctx.mon('workload:builtin-not-readable')
                    continue
                ctx.mon('oracle:tree-equals-html')
                if ti != th:
                    ctx.violation('html-tree-mismatch', case, {'from_indentation': ti, 'from_html': th, 'output': out[:300]})
                else:
                    ctx.seen(('builtin', abbr, syntax))


def run_shard(desc, ctx):
    if desc.get('builtin'):
        builtin_sweep(ctx)
        return
    mon = Mon(ctx)
    rng = ctx.rng
    pr = probes.Probes().add('emmet.markup.format.indent_format:element').add('emmet.markup.format.indent_format:push_value') \
        .add('emmet.markup.format.indent_format:push_primary_attributes').add('emmet.markup.format.indent_format:push_secondary_attributes').install()
    try:
        import emmet as _em
        from emmet.scanner import ScannerException as _SE
        from emmet.token_scanner import TokenScannerException as _TE
        # near misses (vmon/stretch.py): text the formatter looks at with a pattern - it only has to come back
        for ab in stretch.near_miss_inputs(rng, ['div.%s', '.%s.md:flex', 'nav[class="%s px-4 md:px-8"]', 'p#%s', 'p[id=%s]', 'div[class="%s"]>p', 'p{%s}', 'p{<%s}', 'p.a.b.c.%s'], 14):
            cfgn = {'syntax': rng.choice(['pug', 'haml', 'slim']), 'options': {'output.format': rng.random() < 0.7, 'comment.enabled': rng.random() < 0.2}}
            stretch.must_return(ctx, _em.expand, (ab, cfgn), {'near_miss': True, 'abbr': ab, 'config': cfgn, '_allowed': (_SE, _TE)})
        for line in stretch.near_miss_inputs(rng, stretch.WRAP_RUN_LINES, 8):
            cfgn = {'syntax': rng.choice(['pug', 'haml', 'slim']), 'text': [line, 'two']}
            stretch.must_return(ctx, _em.expand, (rng.choice(['ul>li*', 'p', 'div>p*>b']), cfgn), {'near_miss': True, 'wrap_line': line, 'config': cfgn, '_allowed': (_SE, _TE)})
        for i in range(desc['n']):
            if rng.random() < 0.04:
                tree = tower(rng, rng.choice([14, 17, 20, 26, 33, 48, 70]))
                ctx.ev('tower')
            else:
                tree = gen(rng, 0, rng.choice([2, 3, 3, 4]) if rng.random() < 0.9 else rng.choice([8, 10, 12]))
            if rng.random() < 0.12:
                # a text node at the top level right after an element (`img+{t}`, `br/+{a}+p`): a line of its own, or the element before it reads `bra`
                spots = [j + 1 for j, x in enumerate(tree) if x.kind == 'e' and not (isinstance(x.tag, dict) and x.tag.get('textnode')) and not x.rep]
                if spots:
                    t = gen_abbr.Node('e')
                    t.name = None
                    t.text = rng.choice(['tx', 'two words', 'q', 'a'])
                    t.tag = {'textnode': True}
                    tree.insert(rng.choice(spots), t)
                    ctx.ev('toplevel-text-after-element')
            abbr = gen_abbr.write(tree, rng)[0]
            exp = []
            expected_lines(tree, 0, None, exp)
            if len(exp) > 400:
                continue
            mon.check(abbr, exp, SYNTAXES[i % 3], rng.choice(['\t', '  ', '    ', '--', '\t', '  ', ' \t', '   ']))
            ctx.state('depth', min(80, max(e['depth'] for e in exp)))
    finally:
        pr.uninstall()
    for k, v in pr.reach().items():
        ctx.mon('reach:' + k, v)


def replay(case, ctx):
    if case.get('builtin'):
        import emmet
        ctx.ev('replay')
        r = core.call(emmet.expand, case['abbr'], {'syntax': case['syntax']})
        if r[0] == 'ok' and header_problem(r[1], case['syntax'], '\t') is not None:
            ctx.violation('line-is-not-an-element', case, {'output': r[1][:300]})
        return
    Mon(ctx).check(case['abbr'], case['expected'], case['syntax'], case['indent'])


CLASSIFIERS = {}
