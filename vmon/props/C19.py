"""C19 - math expressions evaluate to their arithmetic value.

Refuting events: evaluate(s) != value of the independent recursive-descent reference;
a malformed input that returns a value or raises anything but MathExpressionException
(ZeroDivisionError for division by zero); extract() returning a range that is out of
bounds, does not end at the look-ahead adjusted position, contains foreign characters or
unbalanced parentheses."""
import math
import re

from .. import core, enum, forms, probes, stretch

ID = 'C19'
RULE = ('evaluate: every token sequence up to the bound over 1 2 .5 7 + - * / \\ ( ) space (exhaustive, partitioned), random '
        'deeper well-formed expressions, random arbitrary strings for the error clause; extract: every text up to the bound over '
        '"1.+-*/\\() a" x every position 0..len x 3 option sets. Non-trivial = contains an operator or parenthesis (evaluate) / '
        'returned a range (extract); distinct by input string (+position/options)')
ASSUMPTIONS = ['reference evaluator: unary +/- tightest, then * / \\ (left to right), then + - (left to right), \\ = floor of quotient; every value is a float (IEEE double: results beyond its range are inf for all operators alike)',
               'chains mixing \\ with * or / without parentheses are outside the statement: only their exception type is checked',
               'a number is digits[.digits] or .digits; "1." is not a documented number form: only the exception type is checked',
               'blanks between and around tokens are accepted',
               'extract positions 0..len (None = len); out-of-range positions are outside the statement',
               'the look-ahead adjusted position = the caret, or - look-ahead on and a `)` at the caret - the position after that `)` and the run of `)` and blanks '
               '(blank, tab, nbsp, CR, LF: the set the backward scan accepts inside an expression) that follows it; the range must end exactly there']
ALPHA = ['1', '2', '.5', '7', '+', '-', '*', '/', '\\', '(', ')', ' ']
XALPHA = list('1.+-*/\\() a\n')
BOUNDS = {'quick': {'eval_len': 5, 'extract_len': 4}, 'thorough': {'eval_len': 6, 'extract_len': 5}}
FLOORS = {'quick': {'eval:intdiv': 1500, 'eval:token-enum': 15000, 'eval:mutation': 5000, 'eval:enum': 200000, 'eval:random': 5000, 'eval:garbage': 5000, 'extract:enum': 100000},
          'thorough': {'eval:intdiv': 1500, 'eval:token-enum': 2500000, 'eval:mutation': 100000, 'eval:enum': 3000000, 'eval:random': 100000, 'eval:garbage': 100000, 'extract:enum': 2000000}}
REQUIRED_MONITORS = ['oracle:value', 'oracle:malformed', 'oracle:extract-range']


FORM = [0]


def describe(tier):
    return {'exhaustive': True, 'bounds': {'evaluate_max_tokens': BOUNDS[tier]['eval_len'], 'evaluate_alphabet': ALPHA,
                                           'extract_max_len': BOUNDS[tier]['extract_len'], 'extract_alphabet': ''.join(XALPHA)}}


class Malformed(Exception):
    pass


class Undoc(Exception):
    pass


def ref_eval(s):
    "Independent recursive-descent evaluator written from the property statement."
    toks = []
    i = 0
    n = len(s)
    while i < n:
        c = s[i]
        if c in ' \t\xa0':
            i += 1
            continue
        if c.isdigit() or c == '.':
            j = i
            while j < n and s[j].isdigit():
                j += 1
            if j < n and s[j] == '.':
                k = j + 1
                while k < n and s[k].isdigit():
                    k += 1
                if k == j + 1:
                    if j == i:
                        raise Malformed()      # lone dot
                    raise Undoc()              # "1."
                j = k
            toks.append(('n', float(s[i:j])))
            i = j
            continue
        if c in '+-*/\\()':
            toks.append((c, None))
            i += 1
            continue
        raise Malformed()
    p = [0]

    def peek():
        return toks[p[0]][0] if p[0] < len(toks) else None

    # the parser builds an AST first: syntax is judged before anything is evaluated
    def expr():
        v = term()
        while peek() in ('+', '-'):
            op = toks[p[0]][0]
            p[0] += 1
            v = (op, v, term())
        return v

    def term():
        v = unary()
        seen = set()
        while peek() in ('*', '/', '\\'):
            op = toks[p[0]][0]
            p[0] += 1
            seen.add('i' if op == '\\' else 'm')
            if len(seen) > 1:
                undoc[0] = True
            v = (op, v, unary())
        return v

    def unary():
        neg = False
        while peek() in ('+', '-'):
            if toks[p[0]][0] == '-':
                neg = not neg
            p[0] += 1
        v = primary()
        return ('neg', v) if neg else v

    def primary():
        t = peek()
        if t == 'n':
            v = toks[p[0]][1]
            p[0] += 1
            return ('num', v)
        if t == '(':
            p[0] += 1
            v = expr()
            if peek() != ')':
                raise Malformed()
            p[0] += 1
            return v
        raise Malformed()

    def ev(a):
        k = a[0]
        if k == 'num':
            return a[1]
        if k == 'neg':
            return -ev(a[1])
        x, y = ev(a[1]), ev(a[2])
        if k == '+':
            return x + y
        if k == '-':
            return x - y
        if k == '*':
            return x * y
        if k == '/':
            return x / y
        q = x / y
        # an overflown quotient stays what `/` gives; the rounded quotient is a float like every other value of an expression (beyond the
        # float range the four operators give inf: an exact integer here would make `(q+q)/q` differ from `(a/1+a/1)/(a/1)`)
        return float(math.floor(q)) if math.isfinite(q) else q

    undoc = [False]
    if not toks:
        raise Undoc()       # empty / blank: not "built from numbers, operators, signs, parentheses"
    ast = expr()
    if p[0] != len(toks):
        raise Malformed()
    if undoc[0]:
        raise Undoc()
    return ev(ast)


def _api():
    from emmet.math_expression import evaluate, extract
    from emmet.math_expression.parser import MathExpressionException
    return evaluate, extract, MathExpressionException


LIMITED = {'n': 0}


def check_eval(s, cls, ctx, api):
    evaluate, _, MEE = api
    ctx.ev(cls)
    try:
        exp = ('v', ref_eval(s))
    except Malformed:
        exp = ('m',)
    except Undoc:
        exp = ('u',)
    except ZeroDivisionError:
        exp = ('z',)
    except OverflowError:
        exp = ('u',)
    FORM[0] += 1
    r = core.call(evaluate, forms.Shown(s) if FORM[0] % 9 == 0 else s)       # (every ninth expression as a str subclass that shows something else)
    if r[0] == 'ok':
        act = ('v', r[1])
    elif isinstance(r[1], MEE):
        act = ('m',)
    elif isinstance(r[1], ZeroDivisionError):
        act = ('z',)
    else:
        act = ('x', list(core.exc_site(r[1])))
    case = {'fn': 'evaluate', 's': s}
    if s and LIMITED['n'] % 7 == 0:
        # the same expression given as a Scanner limited to a range of a larger text (the input form an editor integration uses after
        # extract()): what lies beyond the range - more digits, a fraction, an operator - is not part of the expression
        from emmet.scanner import Scanner
        tail = ('5', '.5', '5.', ' 1', ')', '+1', '(')[(LIMITED['n'] // 7) % 7]
        ctx.mon('oracle:limited-scanner')
        r2 = core.call(lambda: evaluate(Scanner('(' + s + tail, 1, 1 + len(s))))
        same = (r[0] == r2[0] == 'ok' and (r[1] == r2[1] or (r[1] != r[1] and r2[1] != r2[1]))) or \
               (r[0] == r2[0] == 'exc' and type(r[1]) is type(r2[1]))
        if not same:
            ctx.violation('limited-scanner-differs', dict(case, tail=tail), {'plain': repr(r[1])[:80], 'limited': repr(r2[1])[:80]})
    LIMITED['n'] += 1
    if any(c in s for c in '+-*/\\('):
        ctx.seen(('e', s))
    ctx.state('shape', re.sub(r'[0-9.]+', 'n', s.replace(' ', ''))[:12])
    if act[0] == 'x':
        ctx.mon('oracle:malformed')
        ctx.violation('foreign-exception', case, {'expected': list(exp), 'exc': act[1]})
        return
    if exp[0] == 'u':
        ctx.mon('oracle:error-type-only')
        return
    if exp[0] == 'v':
        ctx.mon('oracle:value')
        ok = act[0] == 'v' and isinstance(act[1], (int, float)) and not isinstance(act[1], bool) and \
            (act[1] == exp[1] or (act[1] != act[1] and exp[1] != exp[1]))      # bit for bit: the same IEEE operations in the same (left to right) order
        if not ok:
            ctx.violation('wrong-value', case, {'expected': exp[1], 'actual': list(act)})
        elif len(ctx.samples) < 3 and len(s) >= 5:
            ctx.sample({'evaluate': s, 'value': act[1], 'reference': exp[1]})
    elif exp[0] == 'z':
        ctx.mon('oracle:value')
        if act[0] != 'z':
            ctx.violation('zero-division', case, {'expected': 'ZeroDivisionError', 'actual': list(act)})
    else:
        ctx.mon('oracle:malformed')
        if act[0] != 'm':
            ctx.violation('malformed-accepted', case, {'expected': 'MathExpressionException', 'actual': list(act)})


RE_CHARS = re.compile(r'[0-9.+\-*/\\() \t\xa0\r\n]*\Z')


def balanced(sub):
    d = 0
    for c in sub:
        if c == '(':
            d += 1
        elif c == ')':
            d -= 1
            if d < 0:
                return False
    return d == 0


def check_extract(s, pos, opt, cls, ctx, api):
    _, extract, _ = api
    ctx.ev(cls)
    FORM[0] += 1
    r = core.call(extract, forms.Shown(s), pos, forms.mapping_form(opt, FORM[0] // 9) if isinstance(opt, dict) else opt) if FORM[0] % 9 == 0 else core.call(extract, s, pos, opt)
    case = {'fn': 'extract', 's': s, 'pos': pos, 'opt': opt}
    ctx.mon('oracle:extract-range')
    if r[0] == 'exc':
        ctx.violation('extract-exception', case, {'exc': list(core.exc_site(r[1]))})
        return
    res = r[1]
    if res is None:
        return
    if not (isinstance(res, tuple) and len(res) == 2 and all(isinstance(x, int) for x in res)):
        ctx.violation('extract-shape', case, {'result': repr(res)})
        return
    a, b = res
    ctx.seen(('x', s, pos, repr(opt)))
    if not (0 <= a <= b <= len(s)):
        ctx.violation('extract-range', case, {'result': [a, b], 'len': len(s)})
        return
    sub = s[a:b]
    if not RE_CHARS.match(sub):
        ctx.violation('extract-chars', case, {'result': [a, b], 'text': sub})
    if not balanced(sub):
        ctx.violation('extract-parens', case, {'result': [a, b], 'text': sub})
    p = len(s) if pos is None else pos
    look = not (opt and opt.get('lookAhead') is False)
    ws = not (opt and opt.get('whitespace') is False)
    tail = s[p:b] if b >= p else None
    if tail is None:
        ctx.violation('extract-end', case, {'result': [a, b], 'pos': p})
    elif not look:
        if b != p:
            ctx.violation('extract-end', case, {'result': [a, b], 'pos': p, 'lookAhead': False})
    else:
        # the look-ahead adjusted position: a `)` under the caret is taken together with the run of `)` and blanks after it
        # (blank, tab, nbsp, CR, LF: the set the backward scan accepts inside an expression)
        e = p
        if s[p:p + 1] == ')':
            e = p + 1
            while e < len(s) and (s[e] == ')' or (ws and s[e] in ' \t\xa0\r\n')):
                e += 1
        if b != e:
            ctx.violation('extract-end', case, {'result': [a, b], 'pos': p, 'tail': tail, 'adjusted_position': e})
    ctx.state('extract-look', 'moved' if b > p else 'same')
    if len(ctx.samples) < 4 and b > p and a < p - 2:
        ctx.sample({'extract': s, 'pos': pos, 'options': opt, 'range': [a, b]})


def rand_expr(rng, depth):
    if depth <= 0 or rng.random() < 0.3:
        return rng.choice(['1', '2', '3', '10', '.5', '0.25', '7', '12.5', '0', '100', '.1', '.2', '0.05', '0.3', '1.1', '0.7', '6', '4.'])
    r = rng.random()
    sp = rng.choice(['', '', ' '])
    if r < 0.2:
        return rng.choice(['-', '+', '--', '-+']) + rand_expr(rng, depth - 1)
    if r < 0.4:
        return '(' + sp + rand_expr(rng, depth - 1) + sp + ')'
    op = rng.choice(['+', '-', '*', '/', '\\', '+', '-', '*'])
    return rand_expr(rng, depth - 1) + sp + op + sp + rand_expr(rng, depth - 1)


def rand_chain(rng):
    "long flat chains and deep parenthesis towers"
    n = rng.randint(8, 40)
    parts = []
    for i in range(n):
        x = rng.choice(['1', '2', '3', '0.5', '10', '(4-1)', '-2', '+3', '(2*(1+1))'])
        parts.append(x)
        if i < n - 1:
            parts.append(rng.choice(['+', '-', '*', '/', '+', '-']))
    s = ''.join(parts)
    d = rng.randint(0, 12)
    return '(' * d + s + ')' * d


OPTS = (None, {'lookAhead': False}, {'whitespace': False})
ETOKS = ['1', '2.5', '(', ')', '()', '(3)', '+', '-', '*', '/', '\\', ' ']


def shards(tier, seed):
    n = 8 if tier == 'quick' else 16
    b = BOUNDS[tier]
    out = [{'kind': 'eval', 'part': p, 'nparts': n, 'maxlen': b['eval_len']} for p in range(n)]
    out += [{'kind': 'extract', 'part': p, 'nparts': n, 'maxlen': b['extract_len']} for p in range(n)]
    out += [{'kind': 'intdiv'}]
    out += [{'kind': 'tokens', 'part': p, 'nparts': 4, 'maxlen': 4 if tier == 'quick' else 6} for p in range(4)]
    out += [{'kind': 'random', 'n': 2500 if tier == 'quick' else 30000} for p in range(4 if tier == 'quick' else 8)]
    return out


def run_shard(desc, ctx):
    api = _api()
    pr = probes.Probes().add('emmet.math_expression.parser:order_tokens').add('emmet.math_expression.parser:parse') \
        .add('emmet.math_expression.extract:number').install()
    try:
        if desc['kind'] == 'eval':
            for s in enum.strings(ALPHA, desc['maxlen'], desc['part'], desc['nparts'], minlen=1):
                check_eval(s, 'eval:enum', ctx, api)
        elif desc['kind'] == 'extract':
            for s in enum.strings(XALPHA, desc['maxlen'], desc['part'], desc['nparts']):
                for pos in list(range(len(s) + 1)) + [None]:
                    for opt in OPTS:
                        check_extract(s, pos, opt, 'extract:enum', ctx, api)
            # near misses (vmon/stretch.py): long runs of operators, blanks and digits before the caret (a `- - - -` cut line, a row of `*`)
            import random as _random
            rr = _random.Random(desc['part'] * 7919 + 1)
            for _ in range(30):
                run = stretch.near_miss(rr, units=['- ', '* ', '+ ', '-', '1 ', '1+', ') ', '( ', '1 - ', '. ', '  '], ends=['x', '', '=', '1', ')', 'a b', ', 2'])
                for t in (run, 'foo ' + run + ' 2+2', run + '(3 + 1)', 'x ' + run):
                    for pos in (len(t), max(len(t) - 1, 0), None):
                        check_extract(t, pos, OPTS[rr.randrange(len(OPTS))], 'extract:near-miss-run', ctx, api)
        elif desc['kind'] == 'tokens':
            # near-valid inputs: sequences of whole tokens (the character enumeration stops far below `(1)()(2)`)
            for s in enum.strings(ETOKS, desc['maxlen'], desc['part'], desc['nparts'], minlen=1):
                check_eval(s, 'eval:token-enum', ctx, api)
        elif desc['kind'] == 'intdiv':
            # integer division where the quotient is a whole number that binary floating point cannot represent exactly on the way
            A = ['1', '2', '3', '0.5', '.3', '10', '7', '0.7', '1.1', '0.6', '4.5', '100', '.9', '2.4']
            B = ['.1', '.2', '0.05', '.3', '0.7', '1.1', '.5', '0.25', '3', '7', '0.6', '.4', '1.5', '0.15']
            big = '1' + '0' * 400
            for s in (big + '\\1', '(' + '9' * 400 + '-' + '9' * 400 + ')\\1', big + '/1', big + '*2', '-' + big + '\\3', '1\\' + big, big + '-' + big, '(' + big + '\\1)*0', big + '\\' + big,
                      '1 ', ' 1 ', '1+2  ', '(1 ) ', '1\t', '2*3 \xa0'):
                check_eval(s, 'eval:intdiv', ctx, api)
            # quotients near the top of the float range that go on through further arithmetic (an exact integer quotient must not turn the
            # next float operation into an error)
            for top in ('1' + '0' * 308, '9' * 308, '17' + '9' * 306, '1' + '0' * 300, '9007199254740993'):
                q = '(' + top + '\\1)'
                for s in ('(%s + %s) * .5' % (q, q), q + '*' + q + '*.5', q + '*' + q + '/3', '-' + q + '-' + q + '+.5', q + '*' + q + '*' + q + '-1.5', '(' + q + '+' + q + ')/' + q,
                          q + '*2*2*2*2*2*2*2*2*2*2*.1', '(' + q + '*' + q + ')\\.5', q + '+.5', '.5*' + q + '*' + q):
                    check_eval(s, 'eval:intdiv', ctx, api)
            for a in A:
                for b in B:
                    for s in (a + '\\' + b, '-' + a + '\\' + b, a + '\\-' + b, '(' + a + '+' + a + ')\\' + b, a + ' \\ ' + b + '+1', '-(' + a + '\\' + b + ')', a + '\\' + b + '\\' + b, a + '*10\\(' + b + '*10)'):
                        check_eval(s, 'eval:intdiv', ctx, api)
        else:
            rng = ctx.rng
            garbage = list('0123456789.+-*/\\() \tabx,%^e') + ['\xa0', '\n', '1e3', '٣']
            for _ in range(desc['n']):
                check_eval(rand_expr(rng, rng.randint(2, 6) if rng.random() < 0.8 else rng.randint(7, 10)), 'eval:random', ctx, api)
                check_eval(rand_chain(rng), 'eval:random', ctx, api)
                g = ''.join(rng.choice(garbage) for _ in range(rng.randint(1, 8)))
                check_eval(g, 'eval:garbage', ctx, api)
                # valid expressions with one to three token-level edits
                m = rand_expr(rng, rng.randint(2, 6))
                for _ in range(rng.randint(1, 3)):
                    i = rng.randint(0, len(m))
                    r = rng.random()
                    if r < 0.6:
                        m = m[:i] + rng.choice(['()', '(', ')', '(1)', '+', '-', '*', '/', '\\', '.', ' ', '1', '(2)', ')(', '()()', '1 2']) + m[i:]
                    elif r < 0.8 and m:
                        m = m[:max(0, i - 1)] + m[i:]
                    else:
                        j = rng.randint(0, len(m))
                        m = m[:i] + m[min(i, j):max(i, j)] + m[i:]
                check_eval(m, 'eval:mutation', ctx, api)
                e = rng.choice(['a ', 'foo(', 'x=', '']) + rand_expr(rng, rng.randint(1, 4)) + rng.choice(['', ')', ' )', ') x', ' b'])
                check_extract(e, rng.randint(0, len(e)), rng.choice(OPTS), 'extract:random', ctx, api)
    finally:
        pr.uninstall()
    for k, v in pr.reach().items():
        ctx.mon('reach:' + k, v)


def replay(case, ctx):
    api = _api()
    if case['fn'] == 'evaluate' and 'tail' in case:
        from emmet.scanner import Scanner
        ctx.ev('replay')
        s, tail = case['s'], case['tail']
        r = core.call(api[0], s)
        r2 = core.call(lambda: api[0](Scanner('(' + s + tail, 1, 1 + len(s))))
        if not ((r[0] == r2[0] == 'ok' and r[1] == r2[1]) or (r[0] == r2[0] == 'exc' and type(r[1]) is type(r2[1]))):
            ctx.violation('limited-scanner-differs', case, {'plain': repr(r[1])[:80], 'limited': repr(r2[1])[:80]})
    elif case['fn'] == 'evaluate':
        check_eval(case['s'], 'replay', ctx, api)
    else:
        check_extract(case['s'], case['pos'], case['opt'], 'replay', ctx, api)


CLASSIFIERS = {}
