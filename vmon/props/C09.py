"""C09 - HTML matcher returns the innermost enclosing tag pair with exact ranges.

Refuting events: for a generated well-formed document and a position, match() /
balanced_outward() / balanced_inward() differ from the generator's own record of where
each element, tag and attribute lies."""
from .. import core, forms, gen_html, probes

ID = 'C09'
RULE = ('cases = (generated document, xml mode, position); documents from random trees (paired / void / self-closed elements, quoted, unquoted, '
        'valueless, expression and Angular/React attributes, comments, CDATA, PIs, special and non-special script/style), every position 0..len, '
        'three functions each. Non-trivial = the position lies strictly inside at least one element; distinct by (document, position)')
ASSUMPTIONS = ['generator bookkeeping is self-checked: every recorded range slices to the text it claims',
               'an unquoted value does not end in "/" right before ">" (that spells "/>"); white space before the `>` of an end tag (`</div >`) is D2: separate documents built to hit the recorded finding',
               'in HTML mode start and end tag may differ in letter case (`<DIV>...</div>`) and script / style are also written in upper / capitalised form; in XML mode an end tag repeats its start tag exactly '
               'and script / style are lower case; the reported name is the one written in the start tag',
               'balanced_inward boundary convention is left open: first entry = a recorded element touching the position with no recorded descendant strictly containing it; rest = exactly its first-child chain']
FLOORS = {'quick': {'position': 30000, 'document': 200}, 'thorough': {'position': 2000000, 'document': 12000}}
REQUIRED_MONITORS = ['oracle:match', 'oracle:attributes', 'oracle:outward', 'oracle:inward', 'oracle:retained']
NDOCS = {'quick': 40, 'thorough': 900}


def describe(tier):
    return {'exhaustive': False, 'bounds': {'documents_per_shard': NDOCS[tier], 'max_depth': 4, 'max_children': 3, 'positions': 'every position 0..len'}}


def shards(tier, seed):
    n = 8 if tier == 'quick' else 16
    return [{'ndocs': NDOCS[tier], 'part': p} for p in range(n)]


def region(src, recs, cands, pos):
    "abstract state: where in its innermost element the position lies"
    if not cands:
        return 'outside'
    r = cands[0]
    o = r['open']
    if o[0] < pos < o[1]:
        for a in r['attrs']:
            if a['ns'] <= pos <= a['ne']:
                return 'attr-name'
            if a['val'] is not None and a['vs'] <= pos <= a['ve']:
                return 'attr-value'
        return 'open-tag'
    if r['close'] and r['close'][0] <= pos <= r['close'][1]:
        return 'close-tag'
    if r['kind'] == 'special':
        return 'special-body'
    return 'content'


def tup(t):
    return (t.name, tuple(t.open), tuple(t.close) if t.close else None)


def full(t):
    return (t.name, tuple(t.open), tuple(t.close) if t.close else None,
            tuple((a.name, a.name_start, a.name_end, a.value, a.value_start, a.value_end) for a in (getattr(t, 'attributes', None) or [])))


def full_list(ts):
    return [full(t) for t in ts]


HELD = core.Retained(every=7)
OTHER_DOC = '<ul class="nav"><li id=a>one<br></li><!-- <b> --><li><a href="#">two</a></li><script>if (a<b) c()</script></ul>'


def blank_end_tags_unseen(src, recs, hm):
    "D2 evidence for the classifier: recorded end tags with a blank before `>` that the tag scanner does not report at all"
    seen = set()
    hm.scan(src, lambda name, typ, s, e: seen.add((s, e)))
    return [list(r['close']) for r in recs if r['close'] and src[r['close'][1] - 2].isspace() and tuple(r['close']) not in seen]


def kept_options(xml):
    "ONE options dictionary kept by the caller across documents, its `xml` flag switched per document; `special` and `empty` spell out the defaults"
    if 'special' not in KEPT:
        from emmet.html_matcher.utils import default_special, default_empty
        KEPT['special'] = {k: (list(v) if v is not None else None) for k, v in default_special.items()}
        KEPT['empty'] = list(default_empty)
    KEPT['xml'] = xml
    return KEPT


KEPT = {}
DOCS = [0]


def check_doc(src, recs, xml, ctx, hm, positions=None, domain='d1'):
    DOCS[0] += 1
    if DOCS[0] % 2 or positions is not None:
        opt = kept_options(xml)
        ctx.ev('document:kept-options')
    else:
        opt = {'xml': xml}
    ctx.ev('document')
    # every fifth document is handed over as a markupsafe-like str subclass, every fifth as a str subclass that SHOWS something else (vmon/forms.py)
    arg = forms.MarkupLike(src) if DOCS[0] % 5 == 1 else (forms.Shown(src) if DOCS[0] % 5 == 3 else src)
    if arg is not src:
        ctx.ev('document:' + type(arg).__name__)
    docase = {'src': src, 'xml': xml, 'truth': gen_html.to_json(recs), 'domain': domain}
    if domain == 'd2':
        ctx.ev('document:d2')
        docase['blank_end_tags_unseen'] = blank_end_tags_unseen(src, recs, hm)
    by_key = {(r['name'], r['open'], r['close']): r for r in recs}
    for pos in (positions if positions is not None else range(len(src) + 1)):
        ctx.ev('position')
        cands = [r for r in recs if r['start'] < pos < r['end']]
        cands.sort(key=lambda r: r['end'] - r['start'])
        case = dict(docase, pos=pos)
        if cands:
            ctx.seen((src, pos))
            ctx.state('region', '%s/%s' % (cands[0]['kind'], region(src, recs, cands, pos)))
        # ---- match
        ctx.mon('oracle:match')
        r = core.call(hm.match, arg, pos, opt)
        if r[0] == 'exc':
            ctx.violation('exception', dict(case, fn='match'), {'exc': list(core.exc_site(r[1]))})
        else:
            m = r[1]
            HELD.keep(m, full, case, 'match')
            exp = cands[0] if cands else None
            if exp is None:
                if m is not None:
                    ctx.violation('match-unexpected', case, {'actual': [m.name, m.open, m.close]})
            elif m is None or (m.name, tuple(m.open), tuple(m.close) if m.close else None) != (exp['name'], exp['open'], exp['close']):
                ctx.violation('match-mismatch', case, {'expected': [exp['name'], exp['open'], exp['close']],
                                                       'actual': m and [m.name, m.open, m.close]})
            else:
                ctx.mon('oracle:attributes')
                ea = [(a['name'], a['ns'], a['ne'], a['val'], a['vs'], a['ve']) for a in exp['attrs']]
                aa = [(a.name, a.name_start, a.name_end, a.value, a.value_start, a.value_end) for a in m.attributes]
                if ea != aa:
                    ctx.violation('attribute-mismatch', case, {'tag': src[exp['open'][0]:exp['open'][1]], 'expected': ea, 'actual': aa})
                if len(ctx.samples) < 2 and len(cands) >= 2 and exp['attrs']:
                    ctx.sample({'document': src[:300], 'xml': xml, 'pos': pos, 'match': [m.name, m.open, m.close],
                                'attributes': [a.to_json() for a in m.attributes]})
        # ---- the same call made from inside a scanner callback on ANOTHER document (an editor plug-in does this when it walks one
        # buffer and asks about a second): the answer is the answer of the plain call
        if pos % 11 == 3 and r[0] == 'ok':
            ctx.mon('oracle:match-reentrant')
            got = []

            def cb(name, typ, s_, e_, got=got):
                if not got:
                    got.append(core.call(hm.match, arg, pos, opt))
                    got.append(core.call(hm.balanced_inward, arg, pos, opt))
            outer = []
            core.call(hm.scan, OTHER_DOC, lambda *a: (outer.append(a[:1] + a[2:]), cb(*a))[0])
            plain_outer = []
            core.call(hm.scan, OTHER_DOC, lambda *a: plain_outer.append(a[:1] + a[2:]))
            pi = core.call(hm.balanced_inward, arg, pos, opt)
            if len(got) != 2 or got[0][0] != 'ok' or (got[0][1] and full(got[0][1])) != (r[1] and full(r[1])) \
                    or got[1][0] != pi[0] or (pi[0] == 'ok' and full_list(got[1][1]) != full_list(pi[1])) or outer != plain_outer:
                ctx.violation('reentrant-call-differs', dict(case, fn='match/balanced_inward inside a scan callback'),
                              {'plain': r[1] and full(r[1]), 'inside_callback': [g[0] == 'ok' and (g[1] and (full(g[1]) if not isinstance(g[1], list) else full_list(g[1]))) for g in got],
                               'outer_tokens_changed': outer != plain_outer})
        # ---- outward
        ctx.mon('oracle:outward')
        r = core.call(hm.balanced_outward, arg, pos, opt)
        if r[0] == 'exc':
            ctx.violation('exception', dict(case, fn='balanced_outward'), {'exc': list(core.exc_site(r[1]))})
        else:
            eo = [(c['name'], c['open'], c['close']) for c in cands]
            ao = [tup(t) for t in r[1]]
            HELD.keep(r[1], full_list, case, 'balanced_outward')
            if eo != ao:
                ctx.violation('outward-mismatch', case, {'expected': eo[:6], 'actual': ao[:6]})
        # ---- inward
        ctx.mon('oracle:inward')
        r = core.call(hm.balanced_inward, arg, pos, opt)
        if r[0] == 'exc':
            ctx.violation('exception', dict(case, fn='balanced_inward'), {'exc': list(core.exc_site(r[1]))})
            continue
        ai = [tup(t) for t in r[1]]
        HELD.keep(r[1], full_list, case, 'balanced_inward')
        why = None
        if cands and not ai:
            why = 'empty although the position is strictly inside an element'
        elif ai:
            f = by_key.get(ai[0])
            if f is None:
                why = 'first entry is not a recorded element'
            elif not (f['start'] <= pos <= f['end']):
                why = 'first entry does not touch the position'
            elif any(c is not f and c['start'] < pos < c['end'] and f['start'] <= c['start'] and c['end'] <= f['end'] for c in recs):
                why = 'a recorded descendant of the first entry strictly contains the position'
            else:
                chain = []
                cur = f
                while True:
                    chain.append((cur['name'], cur['open'], cur['close']))
                    if not cur['children']:
                        break
                    cur = cur['children'][0]
                if chain != ai:
                    why = 'rest is not the first-child chain'
                ctx.state('inward-chain-length', str(min(len(chain), 6)))
        if why:
            ctx.violation('inward-mismatch', case, {'why': why, 'actual': ai[:6]})
    if len(HELD.items) > 150 or positions is not None:
        # results kept by the caller are read again after the calls on this document (and on the documents before it)
        HELD.verify(ctx)


def run_shard(desc, ctx):
    from emmet import html_matcher as hm
    rng = ctx.rng
    pr = probes.Probes().add('emmet.html_matcher:alloc_tag').add('emmet.html_matcher:release_tag') \
        .add('emmet.html_matcher.scan:is_special').add('emmet.html_matcher.scan:consume_closing').install()
    try:
        for k in range(desc['ndocs']):
            xml = (k % 3 == 0)
            if k % 6 == 5:
                src, recs = gen_html.gen_doc(rng, xml=xml, max_depth=rng.randint(6, 10), max_children=2, max_top=1)
                ctx.ev('document:deep')
            else:
                src, recs = gen_html.gen_doc(rng, xml=xml)
            if len(src) > 1000:
                continue
            check_doc(src, recs, xml, ctx, hm)
            if k % 8 == 3:
                # D2: the same kind of document with white space before the `>` of some end tags (`</div >`: well-formed in XML and HTML alike)
                gen_html.BLANK_IN_END_TAG['p'] = 0.3
                try:
                    src, recs = gen_html.gen_doc(rng, xml=xml, max_depth=3)
                finally:
                    gen_html.BLANK_IN_END_TAG['p'] = 0.0
                if len(src) <= 600 and any(r['close'] and src[r['close'][1] - 2].isspace() for r in recs):
                    check_doc(src, recs, xml, ctx, hm, domain='d2')
        HELD.verify(ctx)
    finally:
        pr.uninstall()
    for k, v in pr.reach().items():
        ctx.mon('reach:' + k, v)


def replay(case, ctx):
    from emmet import html_matcher as hm
    recs = gen_html.from_json(case['truth'])
    gen_html.self_check(case['src'], recs)
    # the kept options dictionary has been through a document of the other mode before
    core.call(hm.match, '<p class="a">x</p><script>1<2</script>', 1, kept_options(not case['xml']))
    check_doc(case['src'], recs, case['xml'], ctx, hm, positions=None if case.get('retained') else [case['pos']], domain=case.get('domain', 'd1'))
    HELD.verify(ctx)


def _blank_end_tag(rec):
    """The tag scanner wants `>` right after the name of an end tag: `</div >` is not reported at all (the repository's own suite asserts
    get_tags('</a >') == []), so the element it closes - and everything around it - stays open.  Explains only D2 documents (built with such
    end tags) in which the scanner indeed left at least one of the recorded blank end tags unreported."""
    c = rec['case']
    return c.get('domain') == 'd2' and bool(c.get('blank_end_tags_unseen')) and rec['kind'] in ('match-mismatch', 'outward-mismatch', 'inward-mismatch', 'match-unexpected')


CLASSIFIERS = {'C09-blank-before-end-of-closing-tag': _blank_end_tag}
