"""C08 - expansion is a pure function of its arguments.

Refuting events (offline history checker): a history h = c1..cn, p of expand calls sharing
Config objects, user dictionaries and cache dictionaries (some of them failing) after which the
probe p gives another outcome than p alone in pristine interpreter state; two calls of one
history with equal arguments and different outcomes; a shared cache that changes an outcome;
library state (module containers, function defaults, live emmet objects) that differs from the
post-import baseline at the quiescent point after the history.

Both sides are forked from one pristine "zygote": this worker process imports emmet and
never calls it; child A runs h then p and logs every call event, child B runs only p on
pristine copies of the arguments."""
import copy
import json
import os
import signal

from .. import census, core, probes

ID = 'C08'
RULE = ('cases = histories of 1-8 expand calls followed by a probe call; calls draw on 2-3 argument slots (user dict or one Config object reused, optional '
        'cache dict shared between slots with different options), markup and stylesheet profiles (units / unitless / BEM / comments / wrap text / user '
        'snippets with bare numbers), valid and failing abbreviations, raising output.field callbacks; plus fault histories: one call interrupted by an '
        'injected exception at the k-th emmet function entry, then the probe with the same objects. Non-trivial = the history shares an object between the '
        'probe and an earlier call; distinct by history')
ASSUMPTIONS = ['the zygote (worker) never calls emmet: children forked from it start in the state right after import',
               'lorem names are excluded (deliberately random output)',
               'the harmless insertion of a `text` key into the caller dictionary is not judged (results do not change)',
               'census = structural digest of module-level containers, function defaults, closure cells + live instances of emmet classes after gc.collect(), '
               'taken when no object of the history is referenced any more',
               'injected faults model the asynchronous exceptions CPython can deliver at any function entry (RecursionError, KeyboardInterrupt, MemoryError)']
FLOORS = {'quick': {'history': 2500, 'fault-history': 700}, 'thorough': {'history': 55000, 'fault-history': 60000}}
REQUIRED_MONITORS = ['oracle:probe-equals-pristine', 'oracle:equal-arguments-equal-outcome', 'oracle:cache-transparent', 'census:state-equals-baseline']
N = {'quick': {'hist': 230, 'fault': 72}, 'thorough': {'hist': 3800, 'fault': 4200}}


def describe(tier):
    return {'exhaustive': False, 'bounds': {'histories_per_shard': N[tier]['hist'], 'fault_histories_per_shard': N[tier]['fault'], 'history_length': '1-8'}}


def shards(tier, seed):
    n = 12 if tier == 'quick' else 16
    return [dict(N[tier], part=p) for p in range(n)]


# --------------------------------------------------------------------------- workload
MARKUP_PROFILES = [
    {},
    {'options': {'bem.enabled': True}},
    {'options': {'bem.enabled': True, 'comment.enabled': True}, 'context': {'name': 'div', 'attributes': {'class': 'blk'}}},
    {'options': {'comment.enabled': True, 'output.format': False}},
    {'syntax': 'jsx'},
    {'text': ['one', ' two ', '']},
    {'text': 'wrapped words'},
    {'text': ['x'], 'options': {'bem.enabled': True}},
    {'syntax': 'pug', 'text': ['a', 'b']},
    {'snippets': {'vs': 'x-v[a]>x-w', 'vr': 'vr.x'}, 'variables': {'lang': 'de'}},
    {'maxRepeat': 2},
]
CSS_PROFILES = [
    {'type': 'stylesheet'},
    {'type': 'stylesheet', 'options': {'stylesheet.intUnit': 'pt', 'stylesheet.unitless': []}},
    {'type': 'stylesheet', 'options': {'stylesheet.floatUnit': 'rem', 'stylesheet.intUnit': 'q'}},
    {'type': 'stylesheet', 'options': {'stylesheet.unitAliases': {'e': 'vw', 'x': 'XX'}}},
    {'type': 'stylesheet', 'snippets': {'foo': 'bar:10', 'zz': 'zed:1.5|2', 'q': 'quux:a(1, 2)|b'}},
    {'type': 'stylesheet', 'snippets': {'foo': 'bar:10', 'zz': 'zed:1.5|2'}, 'options': {'stylesheet.intUnit': 'mm', 'stylesheet.floatUnit': 'cm'}},
    {'type': 'stylesheet', 'syntax': 'stylus', 'options': {'stylesheet.shortHex': False}},
    {'type': 'stylesheet', 'context': {'name': 'padding'}},
    {'type': 'stylesheet', 'snippets': {'mxw': 'max-width:100p', 'gp': 'gap:2x 1e'}, 'options': {'stylesheet.unitAliases': {'p': 'pt', 'x': 'XX', 'e': 'vw'}}},
    {'type': 'stylesheet', 'snippets': {'mxw': 'max-width:100p', 'gp': 'gap:2x 1e'}},
]
MARKUP_OK = ['a[k]+img', 'input[disabled]+br', 'label>span*4', 'x-p>a{http://x.y}', 'doc', 'ul>li.item$*3', 'div.b>.-e_m', 'p{$#}*', 'a', 'table>.r>.c', 'div.b_m>.-e+.--f', 'section#s>p.c{t}', 'vs>vr', 'ul>li*', 'x-a[k]{${lang}}',
             '.blk__el>.-sub', 'input+select', '(a>b)*3', 'h1{$#}']
MARKUP_BAD = ['a[', 'ul>(', 'a{', 'x[a="b]', 'ul>li*3>(', '(a', '[a=', 'p{a ${1', 'a[b=c"]', 'div.b>.-e{', 'li*>(']
CSS_OK = ['mxw', 'gp', 'zom', 'p10', 'm1.5', 'foo', 'zz', 'lh2', 'bd', 'animic', 'foo+zz', 'w100e', 'm10x', 'c#fc0', 'p10+zom', 'q:a', 'bgp', 'fz1.',
          'posa', 'dib', 'tdn', 'ovh', 'bgcl', 'fwb', 'mten', 'm-a', 'pl-a', 'd:ib', 'poa', 'posx', 'zzz', 'foo2', 'c#f.5', 'bxsh', 'trf:r', '@kf', 'cm', 'lg']
CSS_BAD = ['p(', 'm)', 'p${1', 'a(b', ')']


CSS_OPTION_VALUES = {
    'stylesheet.intUnit': ['px', 'pt', 'q', ''], 'stylesheet.floatUnit': ['em', 'rem', '%'], 'stylesheet.unitless': [[], ['zoom', 'z-index', 'opacity']],
    'stylesheet.unitAliases': [{'e': 'vw', 'x': 'XX'}, {}, {'p': 'pt', 'r': 'rad', 'x': 'ex', 'e': 'em'}], 'stylesheet.shortHex': [True, False], 'stylesheet.between': [': ', ':', ' = '],
    'stylesheet.after': [';', '', ' ;'], 'stylesheet.fuzzySearchMinScore': [0, 0.3, 0.5, 0.9], 'stylesheet.skipUnmatched': [True, False],
    'stylesheet.keywords': [['auto', 'inherit'], [], ['auto', 'inherit', 'unset', 'none', 'all']], 'stylesheet.json': [False, True],
    'output.format': [True, False], 'output.newline': ['\n', '\r\n'],
}
MARKUP_OPTION_VALUES = {
    'bem.enabled': [True, False], 'bem.element': ['__', '-'], 'bem.modifier': ['_', '--'], 'comment.enabled': [True, False], 'comment.trigger': [['id', 'class'], ['class']],
    'jsx.enabled': [True, False], 'output.attributeQuotes': ['double', 'single'], 'output.selfClosingStyle': ['html', 'xhtml', 'xml'],
    'output.format': [True, False], 'output.tagCase': ['', 'upper'], 'output.attributeCase': ['', 'upper'], 'output.compactBoolean': [True, False],
    'output.reverseAttributes': [True, False], 'output.inlineBreak': [0, 2, 3], 'output.indent': ['\t', '  '], 'markup.href': [True, False],
    'inlineElements': [['a', 'span', 'b'], ['em']], 'output.formatLeafNode': [True, False],
}


def rand_user(rng, kind):
    "a random option set over (nearly) every option of the type: purity must hold for all of them"
    vals = MARKUP_OPTION_VALUES if kind == 'markup' else CSS_OPTION_VALUES
    opts = {k: rng.choice(v) for k, v in vals.items() if rng.random() < 0.3}
    u = {'options': opts}
    if kind == 'stylesheet':
        u['type'] = 'stylesheet'
        if rng.random() < 0.3:
            u['syntax'] = rng.choice(['scss', 'sass', 'stylus', 'less'])
        if rng.random() < 0.3:
            u['snippets'] = rng.choice([{'foo': 'bar:10', 'zz': 'zed:1.5|2'}, {'posx': 'pos-x:1|2', 'p': 'pad:0'}, {'q': 'quux:a(1, 2)|b'},
                                        {'mxw': 'max-width:100p', 'gp': 'gap:2x 1e', 'foo': 'bar:3r|4p'}])
        if rng.random() < 0.2:
            u['context'] = {'name': rng.choice(['@@global', '@@section', '@@property', 'padding', 'display'])}
    else:
        if rng.random() < 0.3:
            u['syntax'] = rng.choice(['jsx', 'xml', 'pug', 'haml', 'vue', 'xsl'])
        if rng.random() < 0.3:
            u['text'] = rng.choice([['one', ' two ', ''], 'wrapped words', ['x']])
        if rng.random() < 0.2:
            u['snippets'] = {'vs': 'x-v[a]>x-w', 'vr': 'vr.x'}
        if rng.random() < 0.2:
            u['variables'] = {'lang': 'de', 'charset': 'latin1'}
        if rng.random() < 0.15:
            u['maxRepeat'] = rng.choice([1, 2, 5])
        if rng.random() < 0.15:
            u['context'] = {'name': rng.choice(['ul', 'div', 'span']), 'attributes': {'class': 'blk'}}
    return u


def slot_spec(rng, kind, cache_ids):
    if rng.random() < 0.5:
        prof = rand_user(rng, kind)
    else:
        prof = copy.deepcopy(rng.choice(MARKUP_PROFILES if kind == 'markup' else CSS_PROFILES))
    s = {'user': prof, 'as_config': rng.random() < 0.4, 'cache': rng.choice(cache_ids) if rng.random() < 0.6 else None,
         'raising_field_at': rng.choice([None, None, None, 1, 2, 4]) if kind == 'markup' else None}
    if rng.random() < 0.25:
        s['global'] = rand_global(rng, kind, prof)
    return s


def rand_global(rng, kind, prof):
    "the rarely used third argument of expand(): a global configuration with a section per type / syntax"
    if kind == 'stylesheet':
        sect = rng.choice(['stylesheet', prof.get('syntax', 'css'), 'css'])
        body = rng.choice([{'snippets': {'m': 'margin-block', 'p': 'padding-inline', 'zz': 'zed-g:7'}}, {'snippets': {'foo': 'glob:1|2'}},
                           {'options': {'stylesheet.intUnit': 'gu', 'stylesheet.between': ' := '}}, {'snippets': {'posx': 'gpos:9'}, 'options': {'stylesheet.after': ' !g;'}}])
    else:
        sect = rng.choice(['markup', prof.get('syntax', 'html'), 'html'])
        body = rng.choice([{'snippets': {'vs': 'x-g[g]>x-h', 'a': 'a[href=g]'}}, {'variables': {'lang': 'gl', 'charset': 'g-8'}},
                           {'options': {'output.indent': '  ', 'output.tagCase': 'upper'}}, {'snippets': {'doc': 'html[lang=${lang}]'}, 'variables': {'lang': 'gv'}}])
    g = {sect: body}
    if rng.random() < 0.3:
        g['nosuch'] = {'snippets': {'p': 'decoy'}}
    if rng.random() < 0.3:
        # BOTH the type section and the syntax section, setting the same keys to different values, written in either order (a settings file with
        # sorted keys has the syntax first): equal dictionaries are equal arguments
        typ, syn = ('stylesheet', prof.get('syntax', 'css')) if kind == 'stylesheet' else ('markup', prof.get('syntax', 'html'))
        if kind == 'stylesheet':
            a, b = {'options': {'stylesheet.intUnit': 'ty', 'stylesheet.between': ' :t: '}, 'snippets': {'zz': 'zed-t:1'}}, {'options': {'stylesheet.intUnit': 'sy', 'stylesheet.between': ' :s: '}, 'snippets': {'zz': 'zed-s:2'}}
        else:
            a, b = {'options': {'output.indent': '..', 'output.tagCase': 'upper'}, 'snippets': {'vs': 'x-t'}, 'variables': {'lang': 'ty'}}, {'options': {'output.indent': '____', 'output.tagCase': 'lower'}, 'snippets': {'vs': 'x-s'}, 'variables': {'lang': 'sy'}}
        g = {typ: a, syn: b} if rng.random() < 0.5 else {syn: b, typ: a}
    return g


def gen_hostile_cache_history(rng):
    "few keys, one cache, differing unit options: aimed at state shared through the cache"
    r = rng.random()
    if r < 0.12:
        # one user config, one cache, global configurations that differ (or one absent)
        u = rng.choice([{'type': 'stylesheet'}, {'type': 'stylesheet', 'snippets': {'foo': 'bar:10'}}, {'type': 'stylesheet', 'syntax': 'scss'}])
        gs = rng.sample([None, {'stylesheet': {'snippets': {'m': 'margin-block', 'p': 'padding-inline'}}}, {'css': {'snippets': {'zz': 'zed-g:7', 'foo': 'glob:1'}}},
                         {'stylesheet': {'options': {'stylesheet.intUnit': 'gu'}}}, {'scss': {'snippets': {'m': 'mm-scss'}}, 'css': {'snippets': {'m': 'mm-css'}}}], 2)
        slots = [{'user': copy.deepcopy(u), 'as_config': rng.random() < 0.3, 'cache': 'c0', 'raising_field_at': None} for _ in gs]
        for sl, g in zip(slots, gs):
            if g is not None:
                sl['global'] = g
        hot = ['m10', 'p5', 'zz', 'foo', 'm1.5', 'p10+m0', 'zom', 'w10']
        calls = [{'slot': rng.randrange(2), 'abbr': rng.choice(hot)} for _ in range(rng.randint(1, 5))]
        return {'slots': slots, 'calls': calls, 'probe': {'slot': rng.randrange(2), 'abbr': rng.choice(hot)}}
    if r < 0.2:
        # ONE user table whose defaults carry alias units, one cache, option tables that read those units differently
        tbl = {'mxw': 'max-width:100p', 'gp': 'gap:2x 1e', 'foo': 'bar:3r|4p', 'zz': 'zed:1.5|2', 'bx': 'box:1 2p 3.5'}
        o1, o2 = rng.sample([{}, {'stylesheet.unitAliases': {'p': 'pt', 'x': 'XX', 'e': 'vw', 'r': 'rad'}}, {'stylesheet.unitAliases': {}},
                             {'stylesheet.intUnit': 'q', 'stylesheet.floatUnit': 'fr'}, {'stylesheet.unitAliases': {'p': 'pc'}, 'stylesheet.intUnit': 'mm'}], 2)
        slots = [{'user': {'type': 'stylesheet', 'snippets': dict(tbl), 'options': dict(o)}, 'as_config': rng.random() < 0.3, 'cache': 'c0', 'raising_field_at': None} for o in (o1, o2)]
        hot = ['mxw', 'gp', 'foo', 'mxw+gp', 'bx', 'zz', 'foo+bx']
        calls = [{'slot': rng.randrange(2), 'abbr': rng.choice(hot)} for _ in range(rng.randint(1, 5))]
        return {'slots': slots, 'calls': calls, 'probe': {'slot': rng.randrange(2), 'abbr': rng.choice(hot)}}
    if r < 0.28:
        # ONE table, one scope, one cache; the option sets differ only in how a typed name is MATCHED against the table (threshold of the fuzzy search):
        # whatever is remembered about a name must not outlive the threshold it was found under
        tbl = rng.choice([None, {'foo': 'bar:10', 'zz': 'zed:1.5|2'}, {'posx': 'pos-x:1|2'}])
        ctxn = rng.choice([None, None, {'name': '@@property'}, {'name': '@@section'}])
        s1, s2 = rng.sample([0, 0.3, 0.5, 0.7, 0.9, 1], 2)
        slots = []
        for sc in (s1, s2):
            u = {'type': 'stylesheet', 'options': {'stylesheet.fuzzySearchMinScore': sc}}
            if tbl is not None:
                u['snippets'] = dict(tbl)
            if ctxn is not None:
                u['context'] = dict(ctxn)
            slots.append({'user': u, 'as_config': rng.random() < 0.3, 'cache': 'c0', 'raising_field_at': None})
        hot = rng.sample(['posa', 'dib', 'tdn', 'ovh', 'bgcl', 'fwb', 'mten', 'posx', 'zzz', 'foo2', 'bxsh', 'animic', 'zom', 'fooo', 'zzd', 'bdrs', 'trsde', 'pos', 'p', 'wfsm', 'ovxh', 'bgi', 'mxwd', '@kff', '@med'], 4)
        calls = [{'slot': rng.randrange(2), 'abbr': rng.choice(hot)} for _ in range(rng.randint(1, 6))]
        pa = rng.choice([c['abbr'] for c in calls]) if rng.random() < 0.75 else rng.choice(hot)
        return {'slots': slots, 'calls': calls, 'probe': {'slot': rng.randrange(2), 'abbr': pa}}
    if r < 0.36:
        # two snippet tables, one restricting scope, one cache
        sc = {'name': rng.choice(['@@section', '@@property', '@@global'])}
        t1, t2 = rng.sample([{'foo': 'bar:10', 'zz': 'zed:1.5|2'}, {'posx': 'pos-x:1|2', 'p': 'pad:0'}, {'zz': 'raw ${1} body', 'pos': 'vp-x:a|b'}, {}], 2)
        profs = [{'type': 'stylesheet', 'snippets': t1, 'context': dict(sc)}, {'type': 'stylesheet', 'snippets': t2, 'context': dict(sc)}]
    elif r < 0.6:
        profs = rng.sample(CSS_PROFILES[:7] + CSS_PROFILES[8:], 2)
    else:
        profs = [rand_user(rng, 'stylesheet'), rand_user(rng, 'stylesheet')]
    slots = [{'user': copy.deepcopy(p), 'as_config': rng.random() < 0.3, 'cache': 'c0', 'raising_field_at': None} for p in profs]
    hot = rng.sample(['mxw', 'gp', 'zom', 'foo', 'zz', 'p10+zom', 'foo+zz', 'animic', 'm1.5', 'zz+zom', 'posa', 'dib', 'tdn', 'ovh', 'bgcl', 'fwb', 'mten', 'posx', 'zzz', 'm-a', 'pos', 'p', '@kf', 'cm'], 5)
    calls = [{'slot': rng.randrange(2), 'abbr': rng.choice(hot)} for _ in range(rng.randint(1, 5))]
    return {'slots': slots, 'calls': calls, 'probe': {'slot': rng.randrange(2), 'abbr': rng.choice(hot)}}


def gen_history(rng):
    if rng.random() < 0.25:
        return gen_hostile_cache_history(rng)
    kind = 'markup' if rng.random() < 0.5 else 'stylesheet'
    cache_ids = ['c0', 'c1']
    slots = [slot_spec(rng, kind, cache_ids) for _ in range(rng.randint(1, 3) if rng.random() < 0.9 else rng.randint(4, 6))]
    if rng.random() < 0.15:
        slots.append(slot_spec(rng, 'stylesheet' if kind == 'markup' else 'markup', cache_ids))
    ok, bad = (MARKUP_OK, MARKUP_BAD) if kind == 'markup' else (CSS_OK, CSS_BAD)

    def abbr_for(si):
        styl = slots[si]['user'].get('type') == 'stylesheet'
        o, b = (CSS_OK, CSS_BAD) if styl else (MARKUP_OK, MARKUP_BAD)
        return rng.choice(b) if rng.random() < 0.25 else rng.choice(o)
    calls = []
    for _ in range(rng.randint(1, 8) if rng.random() < 0.9 else rng.randint(9, 24)):
        si = rng.randrange(len(slots))
        calls.append({'slot': si, 'abbr': abbr_for(si)})
    pi = calls[rng.randrange(len(calls))]['slot'] if rng.random() < 0.85 else rng.randrange(len(slots))
    styl = slots[pi]['user'].get('type') == 'stylesheet'
    probe = {'slot': pi, 'abbr': rng.choice(CSS_OK if styl else MARKUP_OK)}
    if rng.random() < 0.3:
        probe['abbr'] = rng.choice([c['abbr'] for c in calls])
    h = {'slots': slots, 'calls': calls, 'probe': probe}
    if rng.random() < 0.2:
        # the caller edits the kept configuration IN PLACE between the history and the probe (a Config object's tables, or its own dictionary): the
        # probe then has the arguments a fresh process would build with the edit already in them
        if styl:
            h['edit'] = rng.choice([{'snippets': {'zzq': 'float:left'}}, {'snippets': {'m': 'margin-inline', 'p': 'padding-block:1|2'}}, {'options': {'stylesheet.intUnit': 'pt'}},
                                    {'snippets': {'zzq': 'zed:9'}, 'options': {'stylesheet.between': ' = '}}])
            probe['abbr'] = rng.choice(['zzq', 'm10', 'p+zzq', 'm10+p', 'zzq+m1-2'])
        else:
            h['edit'] = rng.choice([{'snippets': {'vs': 'x-edit.e'}}, {'snippets': {'a': 'a[href=edit]', 'vs': 'x-e>x-f'}}, {'options': {'output.indent': '..'}}, {'variables': {'lang': 'ed'}}])
            probe['abbr'] = rng.choice(['vs', 'a>vs', 'html[lang=${lang}]>vs', 'ul>li*2>a'])
    return h


def apply_edit(target, edit):
    "in place: on the tables of a Config object, or on the sections of the caller's own dictionary"
    for sect, kv in edit.items():
        if hasattr(target, 'options'):
            getattr(target, sect).update(kv)
        else:
            target[sect] = dict(target.get(sect) or {}, **kv) if False else (target.get(sect) if isinstance(target.get(sect), dict) else target.setdefault(sect, {}))
            target[sect].update(kv)


# --------------------------------------------------------------------------- execution (in forked children)
class FieldBomb:
    def __init__(self, at):
        self.at = at
        self.n = 0

    def __call__(self, index, placeholder, **kw):
        self.n += 1
        if self.at is not None and self.n == self.at:
            raise ValueError('user callback failed')
        return placeholder


def reordered(o):
    "an equal object whose dictionaries list their keys the other way round"
    if isinstance(o, dict):
        return {k: reordered(o[k]) for k in reversed(list(o))}
    if isinstance(o, list):
        return [reordered(x) for x in o]
    return o


def materialize(spec, caches, use_cache=True, other_key_order=False):
    import emmet
    from emmet.config import Config
    user = copy.deepcopy(spec['user'])
    if other_key_order:
        user = reordered(user)
    if spec['cache'] and use_cache:
        user['cache'] = caches.setdefault(spec['cache'], {})
    if spec.get('raising_field_at') is not None:
        user.setdefault('options', {})['output.field'] = FieldBomb(spec['raising_field_at'])
    glob = copy.deepcopy(spec.get('global'))
    if other_key_order:
        glob = reordered(glob)
    if spec['as_config']:
        return (Config(user, glob) if glob is not None else Config(user), None)
    return (user, glob)


def expand2(abbr, args):
    "expand through the two- or three-argument form (the third argument is the global configuration)"
    import emmet
    cfg, glob = args
    return emmet.expand(abbr, cfg, glob) if glob is not None else emmet.expand(abbr, cfg)


def outcome(fn):
    try:
        return ['ok', fn()]
    except (KeyboardInterrupt, SystemExit):
        raise
    except BaseException as e:      # noqa
        return ['exc', type(e).__name__, getattr(e, 'pos', None)]


def child_history(h, fault=None):
    "child A: executes the history then the probe; returns the event log + census"
    import emmet
    caches = {}
    objs = [materialize(s, caches) for s in h['slots']]
    log = []
    inj = None
    if fault is not None:
        inj = probes.FaultInjector()
        inj.install()
    for i, c in enumerate(h['calls']):
        if fault is not None and i == fault['call']:
            k = fault['k']
            if k == 'count':
                n = inj.count(lambda: expand2(c['abbr'], objs[c['slot']]))
                log.append({'seq': i, 'slot': c['slot'], 'abbr': c['abbr'], 'entries': n, 'outcome': ['counted']})
                continue
            r = inj.run(lambda: expand2(c['abbr'], objs[c['slot']]), k)
            oc = ['ok', r[1]] if r[0] == 'ok' else ['exc', type(r[1]).__name__, getattr(r[1], 'pos', None)]
            log.append({'seq': i, 'slot': c['slot'], 'abbr': c['abbr'], 'outcome': oc, 'fault_at': inj.where})
            del r       # the exception's traceback references the interrupted frames: it must not survive to the census
            continue
        log.append({'seq': i, 'slot': c['slot'], 'abbr': c['abbr'], 'outcome': outcome(lambda: expand2(c['abbr'], objs[c['slot']]))})
    if inj is not None:
        inj.uninstall()
    p = h['probe']
    # a raising callback of the history must not decide the probe: callbacks restart counting for the probe
    o = objs[p['slot']][0]
    opt = o.options if hasattr(o, 'options') else o.get('options', {})
    cb = opt.get('output.field') if isinstance(opt, dict) else None
    if isinstance(cb, FieldBomb):
        cb.at = None
    if h.get('edit'):
        apply_edit(objs[p['slot']][0], h['edit'])
    probe_out = outcome(lambda: expand2(p['abbr'], objs[p['slot']]))
    # quiescent point: nothing of the history is referenced any more
    del objs, caches, o, opt, cb
    cen = census.snapshot()
    return {'log': log, 'probe': probe_out, 'census': cen}


def edited_spec(h, spec):
    if h.get('edit'):
        user = copy.deepcopy(spec['user'])
        for sect, kv in h['edit'].items():
            user[sect] = dict(user.get(sect) or {}, **kv)
        spec = dict(spec, user=user)
    return spec


def child_pristine(h):
    "child B: only the probe, on pristine copies of its arguments - with a fresh cache and without any cache"
    import emmet
    p = h['probe']
    spec = edited_spec(h, dict(h['slots'][p['slot']], raising_field_at=None))
    res = {}
    # (equal arguments: child B builds its dictionaries with the keys in the opposite order)
    res['fresh_cache'] = outcome(lambda: expand2(p['abbr'], materialize(spec, {}, True, other_key_order=True)))
    return res


def child_pristine_nocache(h):
    import emmet
    p = h['probe']
    spec = edited_spec(h, dict(h['slots'][p['slot']], raising_field_at=None))
    return {'no_cache': outcome(lambda: expand2(p['abbr'], materialize(spec, {}, False)))}


def forked(fn, *args):
    "runs fn(*args) in a child forked from this (pristine) process; returns its JSON result"
    r, w = os.pipe()
    pid = os.fork()
    if pid == 0:
        try:
            os.close(r)
            signal.alarm(120)
            try:
                res = {'ok': fn(*args)}
            except BaseException as e:      # noqa
                import traceback
                res = {'error': traceback.format_exc()[-1500:]}
            data = json.dumps(res, default=repr).encode()
            with os.fdopen(w, 'wb') as f:
                f.write(data)
        finally:
            os._exit(0)
    os.close(w)
    with os.fdopen(r, 'rb') as f:
        data = f.read()
    os.waitpid(pid, 0)
    if not data:
        raise core.OracleError('forked child died without output')
    res = json.loads(data)
    if 'error' in res:
        raise core.OracleError('forked child failed:\n' + res['error'])
    return res['ok']


# --------------------------------------------------------------------------- checker
def check_history(h, ctx, baseline, cls, fault=None):
    ctx.ev(cls)
    a = forked(child_history, h, fault)
    # pristine side: alternately with a fresh cache and without any cache (one fork per history)
    use_cache = (ctx.counts[cls] % 2 == 0)
    b = forked(child_pristine if use_cache else child_pristine_nocache, h)
    pristine = b['fresh_cache'] if use_cache else b['no_cache']
    case = {'history': h, 'fault': fault}
    p = h['probe']
    shares = any(c['slot'] == p['slot'] for c in h['calls']) or any(h['slots'][c['slot']]['cache'] and h['slots'][c['slot']]['cache'] == h['slots'][p['slot']]['cache'] for c in h['calls'])
    # (i) probe after the history == probe in pristine state
    ctx.mon('oracle:probe-equals-pristine')
    if not use_cache and h['slots'][p['slot']]['cache']:
        ctx.mon('oracle:cache-transparent')      # (iii): probe through the (warmed, shared) cache vs the same call without any cache
    if a['probe'] != pristine:
        feats = history_features(h, a, fault)
        ctx.violation('probe-differs-after-history', dict(case, features=feats),
                      {'after_history': a['probe'], 'pristine': pristine, 'pristine_used_cache': use_cache, 'log': a['log'][-4:]})
    # (ii) equal arguments => equal outcomes inside the log (calls interrupted by an injected fault excluded)
    ctx.mon('oracle:equal-arguments-equal-outcome')
    seen = {}
    for e in a['log']:
        if 'fault_at' in e or e['outcome'] == ['counted']:
            continue
        spec = h['slots'][e['slot']]
        if spec.get('raising_field_at') is not None:
            continue            # a counting callback is an argument that differs from call to call
        key = (e['abbr'], json.dumps({'user': spec['user'], 'global': spec.get('global')}, sort_keys=True))
        if key in seen and seen[key]['outcome'] != e['outcome']:
            ctx.violation('equal-arguments-different-outcome', dict(case, features=history_features(h, a, fault)),
                          {'first': seen[key], 'later': e})
            break
        seen.setdefault(key, e)
    # leak clause
    ctx.mon('census:state-equals-baseline')
    changed, grown = census.diff(baseline, a['census'])
    if changed or grown:
        ctx.violation('state-grew', dict(case, features=history_features(h, a, fault)), {'changed_state': changed[:8], 'live_instances_grown': grown})
    if shares:
        ctx.seen(json.dumps(h, sort_keys=True))
    ctx.state('history-shape', 'len=%d slots=%d failing=%d shared_cache=%s config_obj=%s' % (
        len(h['calls']), len(h['slots']), sum(1 for e in a['log'] if e['outcome'][0] == 'exc'),
        any(s['cache'] for s in h['slots']), any(s['as_config'] for s in h['slots'])))
    if len(ctx.samples) < 2 and len(h['calls']) >= 4 and shares:
        ctx.sample({'history': h, 'event_log': a['log'], 'probe_after_history': a['probe'], 'probe_pristine': pristine})
    return a


def history_features(h, a, fault):
    p = h['probe']
    ps = h['slots'][p['slot']]
    failing_before = [e for e in a['log'] if e['outcome'][0] == 'exc' and e['slot'] == p['slot']]
    return {'probe_slot_has_text': 'text' in ps['user'], 'failing_call_on_probe_slot': bool(failing_before), 'fault': bool(fault),
            'probe_type': ps['user'].get('type', 'markup'), 'shared_cache': bool(ps['cache']),
            'bem': bool(any((s['user'].get('options') or {}).get('bem.enabled') for s in h['slots']))}


def run_shard(desc, ctx):
    import emmet            # imported, never called in this process  # noqa
    import emmet.markup.lorem  # noqa
    baseline = json.loads(json.dumps(census.snapshot(), default=repr))      # same wire format as the children's snapshots
    rng = ctx.rng
    for _ in range(desc['hist']):
        check_history(gen_history(rng), ctx, baseline, 'history')
    # ---- fault histories: one call of a one-slot history interrupted at entry k, then the probe
    done = 0
    while done < desc['fault']:
        h = gen_history(rng)
        if not h['calls'] or h['slots'][h['probe']['slot']].get('raising_field_at') is not None:
            continue
        ci = rng.randrange(len(h['calls']))
        h['calls'] = h['calls'][:ci + 1]
        h['probe']['slot'] = h['calls'][ci]['slot']
        styl = h['slots'][h['probe']['slot']]['user'].get('type') == 'stylesheet'
        h['probe']['abbr'] = rng.choice(CSS_OK if styl else MARKUP_OK)
        cnt = forked(child_history, h, {'call': ci, 'k': 'count'})
        entries = [e for e in cnt['log'] if e.get('entries') is not None][0]['entries']
        if entries < 2:
            continue
        ctx.state('fault:entries', str(min(entries // 100 * 100, 3000)))
        for k in sorted(set(rng.randint(1, entries) for _ in range(4))):
            a = check_history(h, ctx, baseline, 'fault-history', {'call': ci, 'k': k})
            done += 1
            fa = [e.get('fault_at') for e in a['log'] if 'fault_at' in e]
            if fa and fa[0]:
                ctx.state('fault:site', fa[0])


def replay(case, ctx):
    import emmet  # noqa
    import emmet.markup.lorem  # noqa
    baseline = json.loads(json.dumps(census.snapshot(), default=repr))
    check_history(case['history'], ctx, baseline, 'replay', case.get('fault'))


CLASSIFIERS = {}
