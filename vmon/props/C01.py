"""C01 - markup expansion reproduces the element tree the operators denote.

Refuting event: one expand(abbr, cfg) whose output tag stream (parsed by the independent
scanner in outparse.py) differs from the tree computed by the depth-sequence reference
model; secondary observation: the AST of emmet.markup_abbreviation()."""
import random
import re

from .. import core, hostile, outparse, probes, ref_tree

ID = 'C01'
RULE = ('cases = (operator skeleton, decoration variant, name filling, config); EVERY grammatical skeleton over E > + ^ ^^ ^^^ ( ) with <= N elements and '
        'group depth <= 2 is enumerated (structure exhaustive; ">" never directly after ")"); each skeleton is run in several seeded decoration '
        'variants (*2/*3 on elements and groups, void leaves E/, names from block / inline / list / table / custom pools, a share nameless-with-class) '
        'rotating through selfClosingStyle html/xhtml/xml x format on/off; plus random skeletons of 6-25 elements, depth <= 4. '
        'Non-trivial = at least two elements and one operator; distinct by (abbreviation, config)')
ASSUMPTIONS = ['reference model ref_tree.py (depth sequence, not a context stack) is correct; it was cross-validated on the unchanged tree',
               'implicit-name parents outside the statement table (colgroup/audio/video/object/map) and snippet names that change the element are not used',
               'outparse.tag_stream reads the output: names exclude < > and blanks']
BOUNDS = {'quick': {'n': 4, 'variants': 4, 'sample_n': 5, 'stride': 16, 'random': 500},
          'thorough': {'n': 5, 'variants': 6, 'sample_n': 6, 'stride': 26, 'random': 20000}}
FLOORS = {'quick': {'implicit:text-parent': 700, 'enum': 110000, 'enum-sampled': 10000, 'random': 8000}, 'thorough': {'implicit:text-parent': 700, 'enum': 4000000, 'enum-sampled': 150000, 'random': 250000}}
REQUIRED_MONITORS = ['oracle:tag-stream', 'oracle:ast', 'oracle:implicit-name-under-text-parent']

PARENTS = ['ul', 'ol', 'table', 'tbody', 'thead', 'tfoot', 'tr', 'select', 'optgroup', 'p', 'span', 'em', 'div', 'section', 'x-foo', 'li', 'td', 'a', 'b',
           'UL', 'Table', 'TR', 'P', 'Select', 'EM', 'OL', 'tBody', 'OptGroup', 'Span', 'DIV', 'h2', 'ns:ul', 'ul-x', 'x_ul',
           # aliases of one plain element (ref_tree.ALIAS): the same alias may stand twice on one ancestor path
           'sect', 'sect', 'bq', 'art', 'det', 'fset', 'fst', 'optg', 'str', 'btn', 'hdr', 'mn',
           # ... and aliases that lead to another alias before they reach the element (ref_tree.CHAINED)
           'form:post', 'a:link', 'select:d', 'form:get', 'a:blank', 'bdo:l', 'tarea:c', 'acr']     # tag names are case-insensitive for the implicit-name table
LEAVES = ['div', 'p', 'span', 'li', 'td', 'x-foo', 'ns:tag', 'h1', 'i', 'strong', 'article', 'main', 'q', 'code', 'option', 'tr']
VOIDS = ['br', 'hr', 'x-v', 'wbr']
STYLES = ['html', 'xhtml', 'xml']
CONFIGS = [(st, fmt) for st in STYLES for fmt in (True, False)]
INLINE_LISTS = [[], ['section', 'x-foo', 'div', 'li'], ['a', 'b', 'td'], ['em', 'span', 'p', 'ul', 'table', 'h2', 'ns:ul']]


def describe(tier):
    b = BOUNDS[tier]
    return {'exhaustive': True, 'bounds': {'skeleton_max_elements': b['n'], 'group_depth': 2, 'climbs': '1-3', 'decoration_variants_per_skeleton': b['variants'],
                                           'sampled_skeleton_elements': '%d (every %dth)' % (b['sample_n'], b['stride']), 'random_skeletons_per_shard': b['random'],
                                           'note': 'operator structure exhaustive up to the bound; decorations/names/configs are seeded samples'}}


def shards(tier, seed):
    n = 12 if tier == 'quick' else 16
    b = BOUNDS[tier]
    return [dict(b, part=p, nparts=n, seed=seed) for p in range(n)]


def decorate(tokens, rng, variant):
    "element list + group repeats for a skeleton; variant 0 = plain named elements"
    elems = []
    greps = []
    # parent hints: make implicit-name parents frequent
    for i, t in enumerate(tokens):
        if t == 'E':
            has_child = i + 1 < len(tokens) and tokens[i + 1] == '>'
            e = ref_tree.W()
            if variant == 0:
                e.name = rng.choice(PARENTS if has_child else LEAVES)
            else:
                r = rng.random()
                if r < 0.3:
                    e.name = None
                    e.extra = rng.choice(['.c', '.a.b', '#i', '[k=v]', '.c[x]'])
                else:
                    e.name = rng.choice(PARENTS if (has_child or rng.random() < 0.2) else LEAVES)
                    if rng.random() < 0.2:
                        e.extra = rng.choice(['.c', '#i', '[k=v]'])
                if rng.random() < 0.25:
                    e.rep = rng.choice([2, 2, 3])
                if not has_child and e.name is not None and rng.random() < 0.15:
                    e.name = rng.choice(VOIDS)
                    e.void = True
            elems.append(e)
        elif t == ')':
            greps.append(1 if variant == 0 or rng.random() < 0.6 else rng.choice([2, 2, 3]))
    return elems, greps


def random_skeleton(rng, max_elems=25, max_depth=4):
    if rng.random() < 0.1:
        max_elems, max_depth = 70, 7
    budget = [rng.randint(6, max_elems)]

    def stmts(depth):
        out = []
        first = True
        while budget[0] > 0 and (first or rng.random() < 0.8):
            if not first:
                last = out[-1]
                ops = ['+', '+', ('^', 1), ('^', 2), ('^', rng.randint(1, 4))]
                if last != ')':
                    ops += ['>', '>', '>']
                out.append(rng.choice(ops))
            first = False
            if depth < max_depth and rng.random() < 0.2 and budget[0] >= 2:
                out.append('(')
                out += stmts(depth + 1)
                out.append(')')
            else:
                out.append('E')
                budget[0] -= 1
        return out
    return stmts(0)


def ast_tree(node):
    return [(c.name, bool(c.self_closing), ast_tree(c)) for c in node.children]


class Mon:
    def __init__(self, ctx):
        import emmet
        from emmet.config import Config
        self.ctx = ctx
        self.expand = hostile.wrap(emmet.expand, ctx)
        self.markup = emmet.markup_abbreviation
        self.Config = Config
        self.k = 0

    def check(self, abbr, expected, style, fmt, cls, stats=None, inline=None):
        ctx = self.ctx
        ctx.ev(cls)
        cfg = {'options': {'output.selfClosingStyle': style, 'output.format': fmt}}
        if inline is not None:
            cfg['options']['inlineElements'] = list(inline)
        case = {'abbr': abbr, 'style': style, 'format': fmt, 'expected': expected, 'inline': inline}
        ctx.mon('oracle:tag-stream')
        r = core.call(self.expand, abbr, cfg)
        exp_flat = [list(x) for x in ref_tree.flatten(expected, style)]
        if r[0] == 'exc':
            ctx.violation('exception', case, {'exc': list(core.exc_site(r[1])), 'msg': str(r[1])[:120]})
            return
        out = r[1]
        try:
            stream = outparse.tag_stream(out)
            act = []
            for t in stream:
                if t[0] == 'open':
                    act.append(['selfclose' if t[3] else 'open', t[1]])
                    if t[3] and t[3] != {'xhtml': ' /', 'xml': '/'}.get(style):
                        ctx.violation('self-closing-spelling', case, {'output': out[:300], 'closer': t[3]})
                elif t[0] == 'close':
                    act.append(['close', t[1]])
                elif t[0] == 'text':
                    act.append(['text', t[1][:30]])
        except outparse.OutParseError as e:
            ctx.violation('unparseable-output', case, {'output': out[:300], 'parser': str(e)})
            return
        if act != exp_flat:
            ctx.violation('tree-mismatch', case, {'output': out[:400], 'expected_stream': exp_flat[:40], 'actual_stream': act[:40]})
            # secondary observation: where does it go wrong - parser/convert or formatter?
            ra = core.call(lambda: ast_tree(self.markup(abbr, self.Config(cfg))))
            if ra[0] == 'ok':
                ctx.state('fault-locus', 'ast-also-wrong' if _norm(ra[1]) != _norm(expected) else 'formatter-only')
            return
        if len(exp_flat) >= 4:
            ctx.seen((abbr, style, fmt))
        if stats:
            ctx.state('shape', 'depth=%d clamped=%d groups=%d' % (min(stats['max_depth'], 6), min(stats['clamped_climbs'], 3), stats['group_depth']))
        self.k += 1
        if self.k % 3:
            return      # the secondary AST observation runs on every third agreeing case (and on every mismatch)
        ctx.mon('oracle:ast')
        ra = core.call(lambda: ast_tree(self.markup(abbr, self.Config(cfg))))
        if ra[0] == 'exc':
            ctx.violation('exception', dict(case, fn='markup_abbreviation'), {'exc': list(core.exc_site(ra[1]))})
        elif _norm(ra[1]) != _norm(expected):
            ctx.violation('ast-mismatch', case, {'expected': expected, 'actual': ra[1]})
        if len(ctx.samples) < 3 and len(abbr) > 14 and '^' in abbr and '(' in abbr:
            ctx.sample({'abbreviation': abbr, 'config': cfg, 'output': out[:300], 'expected_stream': exp_flat[:30]})


def _norm(tree):
    return [[n, bool(v) and not ch, _norm(ch)] for n, v, ch in tree]


def implicit_pairs(tree, ctx, parent=None):
    for name, void, ch in tree:
        implicit_pairs(ch, ctx, name)


def run_one(mon, tokens, rng, variant, cfg_index, cls):
    elems, greps = decorate(tokens, rng, variant)
    abbr = ref_tree.spell(tokens, elems, greps)
    items, stats = ref_tree.build(tokens, iter(elems), iter(greps))
    # the inline list is an option of the CALL: successive calls of one process use different lists (nothing may stick between them)
    inline = None if rng.random() < 0.7 else rng.choice(INLINE_LISTS)
    expected = ref_tree.unroll(items, None, inline)
    style, fmt = CONFIGS[cfg_index % len(CONFIGS)]
    for e in elems:
        if e.name is None:
            mon.ctx.mon('workload:nameless-elements')
    mon.check(abbr, _json(expected), style, fmt, cls, stats, inline)
    mon.ctx.state('inline-list', 'default' if inline is None else 'custom:%d' % len(inline))


def _json(tree):
    return [[n, v, _json(ch)] for n, v, ch in tree]


def text_parent_cases(mon):
    """A nameless element whose parent is a TEXT node that keeps children (the comment snippets c / cc:ie / cc:noie, a text with a field):
    the parent has no name, so the documented name is `div` whatever stands further up (the reader of the other classes reads elements,
    so these are judged on the written tags of the nameless elements alone)."""
    import re as _re
    ctx = mon.ctx
    parents = ['c', 'cc:ie', 'cc:noie', '{a ${1} b}', '{${0}}', '{t ${1}}']
    kids = [('.x', ['x']), ('#y', ['y']), ('.x>.z', ['x', 'z']), ('.x*2', ['x', 'x']), ('[k=x]', ['x']), ('.x+.z', ['x', 'z'])]
    outer = ['%s', 'div>%s', 'ul>li>%s', 'p>%s', 'em>%s', 'span>b>%s', 'table>%s', 'ul>%s', 'P>%s', 'x-foo>%s']
    for par in parents:
        for kid, marks in kids:
            for ctxt in outer:
                for fmt in (True, False):
                    abbr = ctxt % (par + '>' + kid)
                    ctx.ev('implicit:text-parent')
                    ctx.mon('oracle:implicit-name-under-text-parent')
                    r = core.call(mon.expand, abbr, {'options': {'output.format': fmt}})
                    case = {'abbr': abbr, 'format': fmt, 'expected': 'every nameless element is written as div'}
                    if r[0] == 'exc':
                        ctx.violation('exception', case, {'exc': list(core.exc_site(r[1]))})
                        continue
                    tags = _re.findall(r'<([\w:-]+) (?:class|id|k)="([xyz])"', r[1])
                    if [m for _, m in tags] != marks or any(t != 'div' for t, _ in tags[:1]):
                        ctx.violation('implicit-name-under-text-parent', case, {'output': r[1][:200], 'tags': tags})
                    else:
                        ctx.seen(('text-parent', abbr, fmt))


def run_shard(desc, ctx):
    mon = Mon(ctx)
    pr = probes.Probes().add('emmet.abbreviation.parser:statements').add('emmet.abbreviation.parser:group') \
        .add('emmet.abbreviation.convert:convert_statement').add('emmet.abbreviation.convert:convert_group') \
        .add('emmet.markup.implicit_tag:resolve_implicit_tag').add('emmet.markup.format.html:element').install()
    part, nparts = desc['part'], desc['nparts']
    try:
        if part == 0:
            text_parent_cases(mon)
            # the alias table of the reference model must be the repository's: a changed snippet table makes the class inconclusive, not violated
            import emmet.snippets.html as RH
            raw = {}
            for k, v in RH.snippets.items():
                for nm in k.split('|'):
                    raw[nm] = v
            stale = {k: (v, raw.get(k)) for k, v in ref_tree.ALIAS.items() if raw.get(k) != v and not
                     (k in ref_tree.CHAINED and re.fullmatch(re.escape(v) + r'\[[^\]]*\]', raw.get(k) or '') and v in raw)}
            if stale:
                raise core.OracleError('ref_tree.ALIAS no longer matches emmet/snippets/html.py: %r' % (stale,))
        idx = 0
        for tokens in ref_tree.skeletons(desc['n'], 2):
            idx += 1
            if idx % nparts != part:
                continue
            rng = random.Random(core.h64('C01/%d/%d' % (desc['seed'], idx)))
            for v in range(desc['variants']):
                run_one(mon, tokens, rng, v, idx + v, 'enum')
        idx = 0
        off = desc['seed'] % desc['stride']
        for tokens in ref_tree.skeletons(desc['sample_n'], 2, climbs=(1, 2)):
            if sum(1 for t in tokens if t == 'E') != desc['sample_n']:
                continue
            idx += 1
            if idx % nparts != part or (idx // nparts) % desc['stride'] != off % desc['stride']:
                continue
            rng = random.Random(core.h64('C01s/%d/%d' % (desc['seed'], idx)))
            run_one(mon, tokens, rng, 1 + idx % 3, idx, 'enum-sampled')
        rng = ctx.rng
        # a few LARGE outputs (hundreds to thousands of elements): buffer / chunking thresholds of the writer
        for i in range(4 if ctx.tier == 'quick' else 60):
            tokens = random_skeleton(rng, max_elems=7, max_depth=2)
            elems, greps = decorate(tokens, rng, 1)
            for e in elems:
                e.rep = 1
            greps = [1] * len(greps)
            total = 1
            for e in rng.sample(elems, min(len(elems), 2)):
                e.rep = rng.choice([12, 25, 40, 64])
                total *= e.rep
            if elems:
                elems[0].rep = rng.choice([1, 2, 3])
            abbr = ref_tree.spell(tokens, elems, greps)
            items, stats = ref_tree.build(tokens, iter(elems), iter(greps))
            expected = ref_tree.unroll(items)
            if 300 <= len(ref_tree.flatten(expected)) // 2 <= 6000:
                style, fmt = CONFIGS[i % len(CONFIGS)]
                mon.check(abbr, _json(expected), style, fmt, 'large-output', stats)
        for i in range(desc['random']):
            tokens = random_skeleton(rng)
            for v in range(4):
                run_one(mon, tokens, rng, v, i + v, 'random')
    finally:
        pr.uninstall()
    for k, v in pr.reach().items():
        ctx.mon('reach:' + k, v)


def replay(case, ctx):
    Mon(ctx).check(case['abbr'], case['expected'], case['style'], case['format'], 'replay', None, case.get('inline'))


CLASSIFIERS = {}
