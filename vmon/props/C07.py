"""C07 - expand fails only with its two parse errors, never with an internal error.

Refuting events: a call of emmet.expand that escapes with anything but ScannerException /
TokenScannerException; a reported .pos outside 0..len(input); a call that exceeds the
logical step budget (non-termination)."""
import copy

from .. import core, enum, gen_abbr, gen_cssabbr, hostile, probes, stretch

ID = 'C07'
RULE = ('cases = (input string, configuration); exhaustive strings up to the bound over the 26-symbol markup alphabet x markup '
        'configurations and over the 22-symbol stylesheet alphabet x stylesheet configurations; every prefix and single-character '
        'deletion / insertion / swap of generated valid abbreviations; random strings <= 40; all 16 syntaxes and option sets with '
        'BEM, comments, JSX, wrap text (string / list / empty), contexts, maxRepeat. Non-trivial = the call raised a parse error or '
        'returned a non-empty string; distinct by (config name, input)')
ASSUMPTIONS = ['user tables range from well-formed over sloppy (empty alternatives, a bare colon, blanks: still a table) to broken (definitions that do not parse: a parse error is in order); an error position, when present, always refers to the input',
               'callbacks of the strict-callbacks configurations raise TypeError only when the LIBRARY breaks the callback contract (integer index, string placeholder, integer positions)',
               'repeat counts are bounded (single digit alphabet in the enumeration, maxRepeat <= 300 in the other workloads) and lorem word counts < 10^5: time and '
               'memory proportional to a count are not what is measured. Nesting is driven to 120 levels in D1; 400-2500 levels are D2 (open finding: RecursionError)',
               'termination is decided on logical steps (20M line events), never on wall clock']
MARKUP_ALPHA = list('a1$#*@-.>+^()[]{}"\'\\ =/:!')
CSS_ALPHA = list('a1$#-.+!,:()@%"\' t{}/')
BOUNDS = {'quick': {'maxlen': 3}, 'thorough': {'maxlen': 4}}
FLOORS = {'quick': {'markup:enum': 150000, 'css:enum': 60000, 'markup:mutation': 20000, 'css:mutation': 9000, 'markup:random': 2000, 'css:random': 2000},
          'thorough': {'markup:enum': 3000000, 'css:enum': 1400000, 'markup:mutation': 400000, 'css:mutation': 200000, 'markup:random': 50000, 'css:random': 50000}}
REQUIRED_MONITORS = ['oracle:exception-type', 'oracle:error-position', 'termination:bounded']

BEM = {'bem.enabled': True}
CMT = {'comment.enabled': True, 'comment.before': '<!-- [#ID][.CLASS] [FOO] -->'}
USER_MARKUP_SNIPPETS = {'vs': 'x-v[a b=c]>x-w', 'vt': '{text ${1}}', 'vr': 'vr.x'}
# legal-looking tables a user may well write: empty alternatives, a bare colon, blanks, upper case, digits in the property
SLOPPY_CSS_SNIPPETS = {'foo': 'bar:a|', 'sb': 'bar:|a', 'sc': 'bar:a||b', 'sd': 'bar:', 'se': 'bar : a | b ', 'sf': 'Bar:a', 'sg': 'bar2:a', 'sh': '', 'si': ' ', 'sj': 'bar:a;b',
                       'sk': '|', 'sl': 'bar:${1}|${2:x}', 'sm': 'bar:"a|b"|c', 'sn': ':a', 'p': 'padding:1 2|', 'so': 'bar:+', 'sp': 'bar:a|+', 'sq': 'bar:!'}
USER_CSS_SNIPPETS = {'foo': 'bar:10|20', 'baz': '${1} x ${2:y}', 'q': 'quux:a(1, 2)|b', 'p': 'padding:1 2'}
def strict_field(index, placeholder, **kw):
    "a consumer that relies on the callback contract: an integer index, a string placeholder, integer positions"
    if not isinstance(index, int) or isinstance(index, bool) or not isinstance(placeholder, str):
        raise TypeError('output.field called with index=%r placeholder=%r' % (index, placeholder))
    if not all(isinstance(kw.get(k), int) for k in ('offset', 'line', 'column')):
        raise TypeError('output.field called with positions %r' % (kw,))
    return '${%d:%s}' % (index, placeholder) if placeholder else '${%d}' % index


def strict_text(text, **kw):
    if not isinstance(text, str) or not all(isinstance(kw.get(k), int) for k in ('offset', 'line', 'column')):
        raise TypeError('output.text called with %r %r' % (text, kw))
    return text


STRICT = {'output.field': strict_field, 'output.text': strict_text}
MARKUP_CFGS = [
    ('html', {}),
    ('jsx', {'syntax': 'jsx'}),
    ('text-list', {'text': ['x', '', ' y ']}),
    ('text-str', {'text': 'foo\nbar'}),
    ('text-empty', {'text': []}),
    ('text-blank', {'text': ['', ' ']}),
    ('bem', {'options': dict(BEM)}),
    ('bem-ctx', {'options': dict(BEM), 'context': {'name': 'div', 'attributes': {'class': 'blk'}}}),
    ('comment', {'options': dict(CMT)}),
    ('pug', {'syntax': 'pug'}),
    ('haml', {'syntax': 'haml', 'text': ['w']}),
    ('slim', {'syntax': 'slim', 'options': dict(BEM)}),
    ('xsl', {'syntax': 'xsl', 'options': dict(CMT)}),
    ('xml', {'syntax': 'xml', 'options': {'output.compactBoolean': True}}),
    ('vue', {'syntax': 'vue', 'context': {'name': 'ul'}}),
    # definitions in the notation of Emmet 1 (`|` for the caret) or simply mistyped: errors of a DEFINITION are errors of the call, with a position (if any) in the input
    ('broken-user-snippets', {'snippets': {'bq': 'blockquote>p|', 'a': 'a[href', 'li': 'li{', 'p': 'p>(', 'ul': 'ul>li*2>a|'}}),
    ('svelte', {'syntax': 'svelte'}),
    ('js', {'syntax': 'js', 'options': {'jsx.enabled': True, 'bem.enabled': True, 'comment.enabled': True}}),
    ('novars', {'variables': {}, 'snippets': USER_MARKUP_SNIPPETS}),
    ('max1', {'maxRepeat': 1, 'text': ['p', 'q', 'r']}),
    ('unknown-syntax', {'syntax': 'nosuch', 'options': {'output.format': False}}),
    ('text-url', {'text': ['http://emmet.io [1]', 'www.x.y]', '//a.b [c', 'mailto:a@b', 'a@b.c', 'http://[::1', 'ftp://x/[y]', 'https://u:p@h:99999/', 'HTTP://É.x', 'x:y', '://', 'http://a b', '[', ']']}),
    ('text-url-str', {'text': 'http://emmet.io [1]', 'options': {'markup.href': True}}),
    ('text-url-reverse', {'text': 'www.emmet.io', 'options': {'output.reverseAttributes': True}}),
    ('text-url-user-a', {'text': ['a@b.c', 'http://x.y'], 'snippets': {'a': 'a.x[title]', 'vs': 'x-v>a'}}),
    ('bem-ctx-loose', {'options': dict(BEM), 'context': {'name': 'div', 'attributes': None}}),
    ('ctx-nameless', {'context': {'attributes': {'class': 'blk'}}, 'options': dict(BEM)}),
    ('strict-callbacks', {'options': dict(STRICT)}),
    ('strict-callbacks-pug', {'syntax': 'pug', 'options': dict(STRICT, **CMT), 'snippets': USER_MARKUP_SNIPPETS}),
]
CSS_CFGS = [
    ('css', {'type': 'stylesheet'}),
    ('scss', {'syntax': 'scss', 'type': 'stylesheet'}),
    ('less', {'syntax': 'less', 'type': 'stylesheet'}),
    ('sass', {'syntax': 'sass', 'type': 'stylesheet'}),
    ('sss', {'syntax': 'sss', 'type': 'stylesheet'}),
    ('stylus', {'syntax': 'stylus', 'type': 'stylesheet'}),
    ('value-ctx', {'type': 'stylesheet', 'context': {'name': 'padding'}}),
    ('value-ctx2', {'type': 'stylesheet', 'context': {'name': '@@value'}}),
    ('section-ctx', {'type': 'stylesheet', 'context': {'name': '@@section'}}),
    ('property-ctx', {'type': 'stylesheet', 'context': {'name': '@@property'}}),
    ('json', {'type': 'stylesheet', 'options': {'stylesheet.json': True}}),
    ('noskip', {'type': 'stylesheet', 'options': {'stylesheet.skipUnmatched': False}}),
    ('minscore', {'type': 'stylesheet', 'options': {'stylesheet.fuzzySearchMinScore': 0.5}}),
    ('user-snippets', {'type': 'stylesheet', 'snippets': USER_CSS_SNIPPETS, 'cache': {}}),
    ('ctx-nameless', {'type': 'stylesheet', 'context': {'attributes': {}}}),
    ('ctx-name-none', {'type': 'stylesheet', 'context': {'name': None}}),
    ('strict-callbacks', {'type': 'stylesheet', 'options': dict(STRICT), 'snippets': USER_CSS_SNIPPETS}),
    ('sloppy-user-snippets', {'type': 'stylesheet', 'snippets': SLOPPY_CSS_SNIPPETS}),
    # a table with an entry the value grammar rejects (the legacy IE filter of many snippet collections): a parse error is in order - one that does not
    # report a position INSIDE THE SNIPPET as if it were a position of the input
    ('broken-user-snippet', {'type': 'stylesheet', 'snippets': {'op:ie': 'filter:progid:DXImageTransform.Microsoft.Alpha(Opacity=100)', 'foo': 'bar:10'}}),
]
# syntax names must be complete: every known syntax appears in at least one configuration
ENUM_MARKUP = ['broken-user-snippets', 'bem-ctx-loose', 'text-url', 'html', 'jsx', 'text-list', 'text-str', 'text-empty', 'bem-ctx', 'comment', 'pug', 'haml', 'xsl', 'vue', 'novars', 'max1']
ENUM_CSS = ['broken-user-snippet', 'ctx-nameless', 'css', 'stylus', 'value-ctx', 'section-ctx', 'json', 'noskip', 'user-snippets', 'strict-callbacks']


def describe(tier):
    return {'exhaustive': True, 'bounds': {'enumerated_max_symbols': BOUNDS[tier]['maxlen'], 'markup_alphabet': ''.join(MARKUP_ALPHA),
                                           'stylesheet_alphabet': ''.join(CSS_ALPHA), 'markup_configs_enumerated': ENUM_MARKUP,
                                           'stylesheet_configs_enumerated': ENUM_CSS,
                                           'note': 'enumeration complete up to the bound for the listed configurations; mutation/random parts are samples'}}


def shards(tier, seed):
    n = 6 if tier == 'quick' else 16
    b = BOUNDS[tier]
    out = []
    for p in range(n):
        out.append({'kind': 'enum', 'lang': 'markup', 'part': p, 'nparts': n, 'maxlen': b['maxlen']})
        out.append({'kind': 'enum', 'lang': 'css', 'part': p, 'nparts': n, 'maxlen': b['maxlen']})
    nm = 8 if tier == 'quick' else 16
    for p in range(nm):
        out.append({'kind': 'mutation', 'first': p == 0, 'n': 25 if tier == 'quick' else 450})
    return out


def cfg_copy(cfg):
    c = copy.deepcopy(cfg)
    return c


INT_LIMIT = {'now': None}


def with_int_limit(limit, fn):
    "runs fn() with sys.set_int_max_str_digits(limit) - what a host application may do at any time after importing the library - and restores the setting"
    import sys
    old = sys.get_int_max_str_digits()
    sys.set_int_max_str_digits(limit)
    INT_LIMIT['now'] = limit
    try:
        return fn()
    finally:
        sys.set_int_max_str_digits(old)
        INT_LIMIT['now'] = None


class Mon:
    def __init__(self, ctx):
        import emmet
        from emmet.scanner import ScannerException
        from emmet.token_scanner import TokenScannerException
        self.ctx = ctx
        self.expand = hostile.wrap(emmet.expand, ctx)
        self.ok_types = (ScannerException, TokenScannerException)
        self.caches = {}
        self.n = 0

    def check(self, s, name, cfg, cls):
        ctx = self.ctx
        ctx.ev(cls)
        c = cfg_copy(cfg)
        if c.get('type') == 'stylesheet':
            # converting the 230 built-in snippets costs 6 ms per call: reuse the documented `cache`
            # for 49 of 50 calls (the un-cached path is still driven by every 50th call)
            self.n += 1
            if self.n % 50:
                c['cache'] = self.caches.setdefault(name, {})
        r = probes.bounded(lambda: self.expand(s, c), ctx, 'expand')
        ctx.mon('termination:bounded')
        case = {'input': s, 'config_name': name, 'config': cfg}
        if INT_LIMIT['now'] is not None:
            case['int_max_str_digits'] = INT_LIMIT['now']
        if r[0] == 'inconclusive':
            raise core.OracleError('step-counted re-run hit the wall-clock watchdog for %r / %s' % (s, name))
        if r[0] == 'nonterm':
            ctx.violation('non-termination', case, {'steps': r[1]})
            return
        if r[0] == 'ok':
            ctx.mon('oracle:exception-type')
            if not isinstance(r[1], str):
                ctx.violation('bad-return-type', case, {'type': type(r[1]).__name__})
            elif r[1]:
                ctx.seen((name, s))
                if len(ctx.samples) < 2 and len(s) > 6:
                    ctx.sample({'input': s, 'config': name, 'returned': r[1][:120]})
            return
        e = r[1]
        ctx.mon('oracle:exception-type')
        if isinstance(e, self.ok_types):
            ctx.seen((name, s))
            ctx.mon('oracle:error-position')
            pos = getattr(e, 'pos', None)
            ctx.state('outcome', type(e).__name__ + (':nopos' if pos is None else ''))
            if pos is not None and not (isinstance(pos, int) and 0 <= pos <= len(s)):
                ctx.violation('error-position', case, {'pos': repr(pos), 'len': len(s), 'type': type(e).__name__})
            elif len(ctx.samples) < 4 and len(s) > 6:
                ctx.sample({'input': s, 'config': name, 'raised': type(e).__name__, 'pos': pos})
            return
        site = core.exc_site(e)
        ctx.state('foreign-exc-site', '%s@%s:%s' % site)
        ctx.violation('internal-error', case, {'exc': list(site), 'msg': str(e)[:160]})


MUT_CHARS_M = 'a1A$#*@-.>+^()[]{}"\'\\ =/:!l\n'
MUT_CHARS_C = 'a1$#-.+!,:()@%"\' t{}/fq'


def mutations(s, chars, rng, k):
    out = []
    for i in range(len(s) + 1):
        out.append(s[:i])
    for i in range(len(s)):
        out.append(s[:i] + s[i + 1:])
    for i in range(len(s) - 1):
        out.append(s[:i] + s[i + 1] + s[i] + s[i + 2:])
    for _ in range(k):
        i = rng.randint(0, len(s))
        out.append(s[:i] + rng.choice(chars) + s[i:])
    for _ in range(k // 2):
        i = rng.randint(0, len(s))
        j = rng.randint(0, len(s))
        out.append(s[:i] + s[j:] + s[i:j])
    return out


SEEDS_M = ['a', 'ul>li*>a', 'p>a*', 'a*', 'a[href]', 'x>a:link*', 'ul#nav>li.item$*4>a{Item $}', 'div>p{a ${1:foo} b}+span[title="x y" data-a=b]', '(a>b)*2+c^d', 'a[href=${1} title]', 'lorem10*3',
           'ul>lorem5-10', '!', 'doc', 'input:t', 'a:link', 'table>.row>.col*2', 'p{$#}*', 'a[b=$#]*', 'x[a.]>y[!b]', 'Foo.Bar.Baz', 'div..x',
           'label>input', 'select>opt*2', 'c>p', 'cc:ie', 'div.b_m>.-e_m2', 'ul>li.-a', '{${lang}}', 'a{${foo}}', 'a[b=${bar}]', 'xsl', 'vare>x',
           'tm', 'div#a.b>p#c', 'a*', 'ri:a', 'html:4t', 'p>{text}+{more ${0}}', 'a/>b', 'br/*2', '$$$@-3*2', 'a$@^*2>b$@^^*2', 'vs>vt+vr',
           'ul>li*', '(x>y)*', 'loremru4', 'p{${1}}>div', 'p{a ${1}}>ul>li', 'x{${1}${2}}>b+i+em', 'p{l1\nl2}>span', 'cc:ie>div', 'c>p', '{${1}}>div', 'p.{a}', 'a[{b}]', 'x[a="b\'c"]', "x[a='b\"c']", 'a{\\}}', 'a>{b}*3', 'a/', '(a)(b)', 'a+', '.b__e_m']
SEEDS_C = ['p${foo}', 'm${foo}${1:x}', 'p${a}+m${b:c}', 'foo', 'sc:b', 'sl', 'sm', 'sb+sd+se', 'sh+si+sk+sn', 'sf+sg+sj', 'p10', 'm10-20', 'bd1-s#f.5', 'c#fc0', 'lg(t, #fff, #000)', 'animic', 'anim', '@kf', 'p10+m20!', 'trf:r', 'bg:n', 'fz1.5e', 'p${1:foo}',
           '$var10', '@w20', '--custom', 'p:--x', 'c:rgb(0,0,0)', 'ff:"a b"', 'bgi:url(a.png)', 'trs:all .3s', 'p!', 'ov:h', 'd:ib', 'poa', 'm0-a',
           'foo', 'baz', 'q', 'q:a', 'animdur', 'cnt', 'bxsh', 'trf:s3d', 'gtc:r', 'lg', 'p0.0', 'c#t', 'c#.5', 'mten', 'foo2']


# numbers in every position of the markup language (counts, numbering bases, field indexes, names, values)
SEEDS_M_NUM = ['a*3', 'ul>li.i$@3*2', 'li.i$$@-12*3', 'p{${1}}', 'p{${2:x}}', 'a[b=${3}]', 'h1', 'x[a=1]', 'p{1}', 'x.c1', 'x#i1', '(a+b)*2', 'a$*2', 'a[b$@7=c]*2',
               'lorem3*2', 'p*2>lorem4', 'a[b=$@-5]*4', 'p{$@9}*2']
import re as _re
RE_BIG_LOREM = _re.compile(r'lorem[a-z]*(?:\d*-)?(\d{5,})', _re.I)


DEEP_M = [lambda n: '>'.join(['b'] * n), lambda n: '>'.join(['div.c', 'p{t}', 'ul', 'li#i', 'span[a=b]'] * (n // 5)), lambda n: '(' * n + 'a' + ')' * n,
          lambda n: '(a>' * n + 'b' + ')' * n, lambda n: 'a' + '{' * n + 'x' + '}' * n, lambda n: '(b+' * n + 'i' + ')' * n, lambda n: '>'.join(['x{${1}}'] * n),
          lambda n: 'b>' * n + 'i' + '^' * (n // 2) + 'em', lambda n: '>'.join(['.b_e'] * n)]
DEEP_C = [lambda n: 'p:' + 'a(' * n + '1' + ')' * n, lambda n: 'p' + '(' * n + '1' + ')' * n, lambda n: 'c:' + 'rgb(' * n + '0,0,0' + ')' * n]


def _recursion_limit_on_deep_nesting(rec):
    """Parser, converter, tree walkers and formatters recurse once (a few frames) per nesting level: children nested about 245 deep,
    groups or function arguments about 490 deep exhaust the interpreter's default recursion limit."""
    if rec['kind'] != 'internal-error' or rec['detail']['exc'][0] != 'RecursionError':
        return False
    s = rec['case']['input']
    return s.count('>') + s.count('(') + s.count('{') >= 240


def _lorem_count_beyond_conversion_limit(rec):
    """`lorem<N>` takes its word count from the element name with int(): the count is unbounded (time and memory grow
    with it), and beyond the interpreter's int conversion limit the conversion itself raises ValueError."""
    if rec['kind'] != 'internal-error':
        return False
    d = rec['detail']
    m = RE_BIG_LOREM.search(rec['case']['input'])
    return bool(m and len(m.group(1)) > 4300 and d['exc'][0] == 'ValueError' and 'integer string conversion' in d.get('msg', ''))


def run_shard(desc, ctx):
    mon = Mon(ctx)
    reach = set()
    import emmet
    import os
    prefix = os.path.dirname(os.path.realpath(emmet.__file__))
    M = probes.M

    def on_start(code, off):
        if code.co_filename.startswith(prefix):
            reach.add('%s:%s' % (code.co_filename[len(prefix) + 1:], code.co_qualname))
        return M.DISABLE
    if probes.ENABLED:
        M.use_tool_id(probes.TOOL_PROBE, 'vmon-reach')
        M.register_callback(probes.TOOL_PROBE, probes.E.PY_START, on_start)
        M.set_events(probes.TOOL_PROBE, probes.E.PY_START)
    try:
        if desc['kind'] == 'enum':
            if desc['lang'] == 'markup':
                cfgs = [(n, c) for n, c in MARKUP_CFGS if n in ENUM_MARKUP]
                alpha, cls = MARKUP_ALPHA, 'markup:enum'
            else:
                cfgs = [(n, c) for n, c in CSS_CFGS if n in ENUM_CSS]
                alpha, cls = CSS_ALPHA, 'css:enum'
            for s in enum.strings(alpha, desc['maxlen'], desc['part'], desc['nparts']):
                for name, cfg in cfgs:
                    mon.check(s, name, cfg, cls)
        else:
            rng = ctx.rng
            for s in ('lorem' + '9' * 4400, 'ul>lorem3-' + '1' * 5000 + '*2', 'p>Loremru' + '7' * 4301):
                mon.check(s, 'html', {'maxRepeat': 3}, 'markup:extreme-run:d2-lorem')
            import sys
            lim = getattr(sys, 'get_int_max_str_digits', lambda: 4300)() or 4300

            def lowered():
                # the same numbers when the HOST has lowered the interpreter's limit after importing the library
                for L in (699, 700, 701, 1500):
                    for d in '91':
                        run = d * L
                        for s in ('li.i$@%s*3' % run, 'li*' + run, 'li.i$@-%s*3' % run, 'p{${%s}}' % run, 'p{${%s:x}}' % run, 'a[b=${%s}]' % run, 'p{%s}' % run, 'h' + run,
                                  '(a+b)*' + run, 'p{$@%s}*2' % run):
                            mon.check(s, 'html', {'maxRepeat': 3}, 'markup:extreme-run:lowered-limit')
                        for s in ('p${%s}' % run, 'p${%s:x}' % run, 'p' + run, 'p.' + run, 'p-' + run, 'c#f.' + run, 'p%s.%s' % (run, run)):
                            mon.check(s, 'css', {'type': 'stylesheet'}, 'css:extreme-run:lowered-limit')
            if desc.get('first'):
                with_int_limit(700, lowered)
            for L in (lim - 2, lim - 1, lim, lim + 1):
                # both sides of the interpreter's int <-> str conversion limit, for every number the languages read, with the digits
                # that make base + counter one digit longer
                for d in '91':
                    run = d * L
                    for s in ('li.i$@%s*3' % run, 'li*' + run, 'li.i$@-%s*3' % run, 'li.i$@-7*' + run, 'p{${%s}}' % run, 'p{${%s:x}}' % run, 'a[b=${%s}]' % run,
                              'p{%s}' % run, 'h' + run, 'x.c%s' % run, '(a+b)*' + run, 'a[b$@%s=c]*2' % run, 'p{$@%s}*2' % run, 'li.i$@-%s*%s' % (run, run)):
                        mon.check(s, 'html', {'maxRepeat': 3}, 'markup:extreme-run')
                    for s in ('p${%s}' % run, 'p${%s:x}' % run, 'p' + run, 'p.' + run, 'p-' + run, 'c#' + run, 'c#f.' + run, '@w' + run, 'p%s.%s' % (run, run), 'z' + run,
                              'p%se' % run, 'bd1-s#f.' + run):
                        mon.check(s, 'css', {'type': 'stylesheet'}, 'css:extreme-run')
            if desc.get('first'):
                # every seed under the configurations whose callbacks insist on the callback contract
                for name, cfg in MARKUP_CFGS:
                    if 'callbacks' in name:
                        for s in SEEDS_M + SEEDS_M_NUM:
                            for m in (s, s + '>' + s, '(' + s + ')*2'):
                                mon.check(m, name, dict(cfg, maxRepeat=3), 'markup:strict-callbacks')
                for name, cfg in CSS_CFGS:
                    if 'callbacks' in name or 'sloppy' in name:
                        for s in SEEDS_C:
                            for m in (s, s + '+' + s, s + '!'):
                                mon.check(m, name, cfg, 'css:strict-callbacks')
                for s in stretch.class_border_inputs(stretch.MARKUP_NUMBER_SLOTS):
                    if not RE_BIG_LOREM.search(s):
                        for name, cfg in (MARKUP_CFGS[0], rng.choice(MARKUP_CFGS[1:])):
                            mon.check(s, name, dict(cfg, maxRepeat=3), 'markup:class-border')
                for s in stretch.class_border_inputs(stretch.CSS_NUMBER_SLOTS):
                    for name, cfg in (CSS_CFGS[0], rng.choice(CSS_CFGS[1:])):
                        mon.check(s, name, cfg, 'css:class-border')
            # nesting depth: D1 (must hold) up to 120 levels; D2 = beyond the interpreter's recursion limit (open finding)
            for depth_n, dom in [(30, 'd1'), (80, 'd1'), (120, 'd1'), (400, 'd2'), (1000, 'd2'), (2500, 'd2')]:
                for make in DEEP_M:
                    name, cfg = rng.choice(MARKUP_CFGS)
                    cfg = dict(cfg)
                    cfg.setdefault('maxRepeat', 3)
                    mon.check(make(depth_n), name, cfg, 'markup:deep-nesting' if dom == 'd1' else 'markup:deep-nesting:d2-recursion')
                for make in DEEP_C:
                    name, cfg = rng.choice(CSS_CFGS)
                    mon.check(make(depth_n), name, cfg, 'css:deep-nesting' if dom == 'd1' else 'css:deep-nesting:d2-recursion')
            # near misses (vmon/stretch.py): long runs of almost-matching text in every place where the formatters and resolvers look at text with a
            # pattern - in the abbreviation, in wrap text, in the values of a user's snippet table
            for s in stretch.near_miss_inputs(rng, stretch.MARKUP_RUN_SLOTS, 60 if ctx.tier == 'quick' else 900):
                name, cfg = rng.choice(MARKUP_CFGS)
                mon.check(s, name, dict(cfg, maxRepeat=3), 'markup:near-miss-run')
            for s in stretch.near_miss_inputs(rng, stretch.CSS_RUN_SLOTS, 40 if ctx.tier == 'quick' else 600):
                name, cfg = rng.choice(CSS_CFGS)
                mon.check(s, name, cfg, 'css:near-miss-run')
            for line in stretch.near_miss_inputs(rng, stretch.WRAP_RUN_LINES, 30 if ctx.tier == 'quick' else 400):
                for ab in ('ul>li*', 'p', 'a', 'div>p*>b'):
                    mon.check(ab, 'html', {'syntax': rng.choice(['html', 'jsx', 'vue', 'pug', 'haml', 'xsl']), 'text': rng.choice([[line, 'second'], line]), 'maxRepeat': 3},
                              'markup:near-miss-run:wrap-text')
            for v in stretch.near_miss_inputs(rng, stretch.SNIPPET_RUN_VALUES, 30 if ctx.tier == 'quick' else 400):
                mon.check(rng.choice(['zz', 'div>zz', 'zz*2']), 'html', {'snippets': {'zz': v}, 'maxRepeat': 3}, 'markup:near-miss-run:user-snippet')
                mon.check(rng.choice(['zz', 'p10+zz', 'bd']), 'css', {'type': 'stylesheet', 'snippets': {'zz': v}}, 'css:near-miss-run:user-snippet')
            for i in range(desc['n']):
                a = rng.choice(SEEDS_M) if rng.random() < 0.5 else gen_abbr.random_abbreviation(rng)
                for m in mutations(a, MUT_CHARS_M, rng, 12):
                    name, cfg = rng.choice(MARKUP_CFGS)
                    cfg = dict(cfg)
                    cfg.setdefault('maxRepeat', 300)
                    mon.check(m, name, cfg, 'markup:mutation')
                for _ in range(6):
                    name, cfg = rng.choice(MARKUP_CFGS)
                    cfg = dict(cfg)
                    cfg.setdefault('maxRepeat', 300)
                    mon.check(stretch.stretch_class(a, rng, classes=('abcdef', '$', '^', '.', '-', ' ', '(', '[', '{', '@', '#')), name, cfg, 'markup:stretched')
                    name, cfg = rng.choice(CSS_CFGS)
                    mon.check(stretch.stretch_class(rng.choice(SEEDS_C), rng), name, cfg, 'css:stretched')
                for _ in range(3):
                    # run lengths at the limits of the interpreter (float overflow, int <-> str conversion limit)
                    name, cfg = rng.choice(MARKUP_CFGS)
                    cfg = dict(cfg)
                    cfg.setdefault('maxRepeat', rng.choice([3, 300]))
                    s, cl, k = stretch.stretch_extreme(a if rng.random() < 0.6 else rng.choice(SEEDS_M_NUM), rng)
                    if cl is not None and len(s) < 30000:
                        big_lorem = RE_BIG_LOREM.search(s)
                        if big_lorem is None:
                            mon.check(s, name, cfg, 'markup:extreme-run')
                            ctx.state('extreme-run', 'markup %r x %d' % (cl[:3], k))
                        elif len(big_lorem.group(1)) > 4300:
                            # D2: the open finding on unbounded lorem counts (beyond the conversion limit the failure is immediate)
                            mon.check(s, name, cfg, 'markup:extreme-run:d2-lorem')
                    name, cfg = rng.choice(CSS_CFGS)
                    s, cl, k = stretch.stretch_extreme(rng.choice(SEEDS_C), rng, classes=('0123456789', '$', '.', '-', ' ', '@', '#', '!', '+', ':', 'abcdef', '%'))
                    if cl is not None:
                        mon.check(s, name, cfg, 'css:extreme-run')
                        ctx.state('extreme-run', 'css %r x %d' % (cl[:3], k))
                c = rng.choice(SEEDS_C) if rng.random() < 0.5 else gen_cssabbr.random_abbreviation(rng)
                for m in mutations(c, MUT_CHARS_C, rng, 12):
                    name, cfg = rng.choice(CSS_CFGS)
                    mon.check(m, name, cfg, 'css:mutation')
                for _ in range(10):
                    s = ''.join(rng.choice(MUT_CHARS_M) for _ in range(rng.randint(4, 40)))
                    name, cfg = rng.choice(MARKUP_CFGS)
                    cfg = dict(cfg)
                    cfg.setdefault('maxRepeat', 300)
                    mon.check(s, name, cfg, 'markup:random')
                    s = ''.join(rng.choice(MUT_CHARS_C) for _ in range(rng.randint(4, 40)))
                    name, cfg = rng.choice(CSS_CFGS)
                    mon.check(s, name, cfg, 'css:random')
    finally:
        if probes.ENABLED:
            M.set_events(probes.TOOL_PROBE, 0)
            M.register_callback(probes.TOOL_PROBE, probes.E.PY_START, None)
            M.free_tool_id(probes.TOOL_PROBE)
            M.restart_events()
    for r in reach:
        ctx.state('reach:function', r)


def replay(case, ctx):
    if case.get('int_max_str_digits') is not None and INT_LIMIT['now'] is None:
        return with_int_limit(case['int_max_str_digits'], lambda: replay(case, ctx))
    named = dict(MARKUP_CFGS)
    named.update({'css:' + k: v for k, v in CSS_CFGS})
    styl = (case['config'] or {}).get('type') == 'stylesheet'
    cfg = named.get(('css:' if styl else '') + case['config_name'])
    if cfg is None or 'callbacks' not in case['config_name']:
        cfg = case['config']        # recorded configurations replay as recorded; the ones with callables are looked up by name
    Mon(ctx).check(case['input'], case['config_name'], cfg, 'replay')


CLASSIFIERS = {'C07-lorem-count-beyond-int-conversion-limit': _lorem_count_beyond_conversion_limit,
               'C07-recursion-limit-on-deep-nesting': _recursion_limit_on_deep_nesting}
