"""C04 - text content is placed verbatim: inline text and wrapped lines.

Refuting events: a text node in expand() output that differs from the payload written in
{...}; text that does not precede the element's children; with wrap text: a wrong number or
order of copies, a line missing / altered / duplicated at a $# site or at the deepest last
element; supplied text interpreted as syntax."""
import itertools
import json
import re

from .. import core, enum, hostile, outparse, probes, stretch

ID = 'C04'
RULE = ('inline: every payload up to the bound over the 26-symbol punctuation alphabet, encoded in three ways (all specials escaped / balanced braces bare / every character escaped), '
        'in 5 positions (alone, before a child, with attributes and a sibling, in a repeated group, as last child); random payloads <= 30 and payloads with balanced braces nested up to 5 deep; '
        'wrap: lists of 0-40 lines incl. blank ones and syntax look-alikes x 17 fixed abbreviation shapes + generated trees with one implicit repeater anywhere, explicit repeaters around and inside it and $# sites in text / attributes (model unrolls the written tree line by line) (placeholders in text / attribute / both / none, '
        'implicit repeater on element or group, no implicit repeater), list and single-string text. Non-trivial = payload has >= 1 character that is '
        'special in the abbreviation language / wrap list has >= 2 non-blank lines; distinct by (abbreviation, text)')
ASSUMPTIONS = ['lines containing a double quote are not placed at $# sites inside attribute values (the output would not be readable unambiguously)',
               'payloads and lines exclude "<" (output is read with a tag scanner) and line breaks inside one inline payload',
               'multi-line wrap text is compared modulo the re-indentation of continuation lines; a single string with an implicit repeater modulo surrounding blanks',
               'exactly one implicit repeater per abbreviation, executed once (no explicitly repeated ancestor): the statement does not define several executions']
ALPHA = ['a', '$', '*', '>', '+', '^', '(', ')', '[', ']', '{', '}', '"', "'", '\\', '#', '.', ' ', 'é', '@', '-', '1', '/', '!', '=', ':']
BOUNDS = {'quick': {'maxlen': 3, 'stride': 1, 'random': 1200, 'wrap': 900}, 'thorough': {'maxlen': 4, 'stride': 2, 'random': 12000, 'wrap': 14000}}
FLOORS = {'quick': {'inline:enum': 170000, 'inline:random': 30000, 'inline:nested': 8000, 'wrap': 6000, 'wrap:generated': 3000}, 'thorough': {'inline:enum': 2000000, 'inline:random': 500000, 'inline:nested': 100000, 'wrap': 200000, 'wrap:generated': 90000}}
REQUIRED_MONITORS = ['oracle:inline-text', 'oracle:wrap-copies', 'oracle:wrap-lines', 'oracle:text-around-field']


def describe(tier):
    b = BOUNDS[tier]
    return {'exhaustive': b['stride'] == 1, 'bounds': {'payload_max_symbols': b['maxlen'], 'alphabet': ''.join(ALPHA), 'stride': b['stride'],
                                                        'note': 'inline payload enumeration complete up to the bound when stride is 1; wrap part is a sample'}}


def encode_all(p):
    return ''.join('\\' + c if c in '\\${}' else c for c in p)


def encode_bal(p):
    "balanced braces stay bare, unbalanced ones are escaped"
    esc = [False] * len(p)
    opens = []
    for i, c in enumerate(p):
        if i > 0 and p[i - 1] == '\\' and False:
            continue
        if c == '{':
            opens.append(i)
        elif c == '}':
            if opens:
                opens.pop()
            else:
                esc[i] = True
    for i in opens:
        esc[i] = True
    return ''.join(('\\' + c) if (c in '\\$' or esc[i]) else c for i, c in enumerate(p))


def encode_every(p):
    "a backslash makes the next character literal - whatever that character is"
    return ''.join('\\' + c for c in p)


def nested_payload(rng, depth=0):
    "balanced braces nested up to 5 deep, mixed with other symbols"
    s = ''
    for _ in range(rng.randint(1, 3)):
        r = rng.random()
        if r < 0.45 and depth < 5:
            s += '{' + nested_payload(rng, depth + 1) + '}'
        else:
            s += rng.choice(['a', ' ', 'x:1', ',', '$', '"k"', '\\', '*', '>', '[0]', '(f)', 'é', ''])
    return s


# (template, expected stream builder) - P is the payload text token (omitted when empty)
def _t(p):
    return [['text', p]] if p else []


TEMPLATES = [
    ('x-a{%s}', lambda p: [['open', 'x-a']] + _t(p) + [['close', 'x-a']]),
    ('x-a{%s}>x-b', lambda p: [['open', 'x-a']] + _t(p) + [['open', 'x-b'], ['close', 'x-b'], ['close', 'x-a']]),
    ('x-c>x-a[k=v]{%s}+x-b', lambda p: [['open', 'x-c'], ['open', 'x-a']] + _t(p) + [['close', 'x-a'], ['open', 'x-b'], ['close', 'x-b'], ['close', 'x-c']]),
    ('(x-a.c{%s})*2', lambda p: ([['open', 'x-a']] + _t(p) + [['close', 'x-a']]) * 2),
    ('x-c>x-b+x-a{%s}', lambda p: [['open', 'x-c'], ['open', 'x-b'], ['close', 'x-b'], ['open', 'x-a']] + _t(p) + [['close', 'x-a'], ['close', 'x-c']]),
    # text standing on its own (no element of its own): what is written after `>` still follows it - also when the text is empty
    ('x-c>{%s}>x-b', lambda p: [['open', 'x-c']] + _t(p) + [['open', 'x-b'], ['close', 'x-b'], ['close', 'x-c']]),
    ('{%s}>x-b', lambda p: _t(p) + [['open', 'x-b'], ['close', 'x-b']]),
]


def observe(out):
    res = []
    for t in outparse.tag_stream(out, keep_ws_text=True):
        if t[0] == 'open':
            res.append(['open', t[1]])
            if t[3]:
                res.append(['close', t[1]])
        elif t[0] == 'close':
            res.append(['close', t[1]])
        elif t[0] == 'text':
            if res and res[-1][0] == 'text':
                res[-1][1] += t[1]
            else:
                res.append(['text', t[1]])
    return res


class Mon:
    def __init__(self, ctx):
        import emmet
        self.ctx = ctx
        self.expand = hostile.wrap(emmet.expand, ctx)

    def inline(self, p, enc, ti, cls):
        ctx = self.ctx
        ctx.ev(cls)
        tmpl, build = TEMPLATES[ti]
        abbr = tmpl % (encode_all(p) if enc == 0 else encode_bal(p) if enc == 1 else encode_every(p))
        exp = build(p)
        case = {'part': 'inline', 'abbr': abbr, 'payload': p, 'expected': exp}
        ctx.mon('oracle:inline-text')
        r = core.call(self.expand, abbr, {'options': {'output.format': False}})
        if r[0] == 'exc':
            ctx.violation('exception', case, {'exc': list(core.exc_site(r[1])), 'msg': str(r[1])[:100]})
            return
        try:
            act = observe(r[1])
        except outparse.OutParseError as e:
            ctx.violation('unparseable-output', case, {'output': r[1][:200], 'parser': str(e)})
            return
        if act != exp:
            ctx.violation('text-not-verbatim', case, {'output': r[1][:200], 'actual': act})
            return
        if any(c in '$*>+^()[]{}"\'\\#.@/!=:' for c in p):
            ctx.seen((abbr,))
        if len(ctx.samples) < 2 and len(p) >= 3 and '\\' in abbr and '{' in p:
            ctx.sample({'abbreviation': abbr, 'payload': p, 'output': r[1]})

    def wrap(self, shape, text, cls):
        ctx = self.ctx
        abbr, builder = shape[:2]
        snippets = shape[2] if len(shape) > 2 else None
        if '=$#' in abbr or '="$#' in abbr:
            if any('"' in l for l in ([text] if isinstance(text, str) else text)):
                ctx.mon('workload:skipped-quote-in-attribute-site')
                return      # a double quote inside a double-quoted attribute site cannot be read back unambiguously
        ctx.ev(cls)
        exp = builder(text)
        case = {'part': 'wrap', 'abbr': abbr, 'text': text, 'expected': exp}
        cfg = {'text': text if isinstance(text, str) else list(text), 'options': {'output.format': False}}
        if snippets:
            cfg['snippets'] = dict(snippets)
            case['snippets'] = dict(snippets)
            case['domain'] = 'd2-alias'
        ctx.mon('oracle:wrap-copies')
        r = core.call(self.expand, abbr, cfg)
        if r[0] == 'exc':
            ctx.violation('exception', case, {'exc': list(core.exc_site(r[1])), 'msg': str(r[1])[:100]})
            return
        try:
            act = observe_wrap(r[1])
        except outparse.OutParseError as e:
            ctx.violation('unparseable-output', case, {'output': r[1][:300], 'parser': str(e)})
            return
        es = [x[:2] for x in exp if x[0] != 'text']
        as_ = [x[:2] for x in act if x[0] != 'text']
        if es != as_:
            ctx.violation('wrap-copies', case, {'output': r[1][:400], 'expected_tags': es[:30], 'actual_tags': as_[:30]})
            return
        ctx.mon('oracle:wrap-lines')
        if isinstance(text, str) or abbr in LOOSE_SHAPES:
            # a single string is compared modulo blanks (the statement speaks of lines; how a string is trimmed is not defined)
            def loose(st):
                return [[x[0], ''.join(x[1].split())] if x[0] == 'text' else
                        ([x[0], x[1], [[a, ''.join(v.split()) if v else v] for a, v in x[2]]] if x[0] == 'open' else x) for x in st]
            exp = loose(exp)
            act = loose(act)
        if norm_stream(exp) != norm_stream(act):
            ctx.violation('wrap-text', case, {'output': r[1][:400], 'expected': norm_stream(exp)[:30], 'actual': norm_stream(act)[:30]})
            return
        lines = [text] if isinstance(text, str) else text
        if sum(1 for l in lines if l.strip()) >= 2:
            ctx.seen((abbr, repr(text)))
        ctx.state('wrap-shape', '%s lines=%d' % (abbr[:24], min(len(lines), 4)))
        if len(ctx.samples) < 4 and len(lines) >= 4 and '$#' in abbr:
            ctx.sample({'abbreviation': abbr, 'text': text, 'output': r[1][:300]})


def observe_wrap(out):
    res = []
    for t in outparse.tag_stream(out, keep_ws_text=True):
        if t[0] == 'open':
            res.append(['open', t[1], [[a, v] for a, v in t[2]]])
            if t[3]:
                res.append(['close', t[1]])
        elif t[0] == 'close':
            res.append(['close', t[1]])
        elif t[0] == 'text':
            if res and res[-1][0] == 'text':
                res[-1][1] += t[1]
            else:
                res.append(['text', t[1]])
    return res


def norm_text(t):
    "text compared modulo re-indentation of continuation lines"
    if '\n' not in t:
        return [t]
    lines = [l.strip() for l in t.split('\n')]
    while lines and not lines[0]:       # a multi-line value is set off on lines of its own
        lines.pop(0)
    while lines and not lines[-1]:
        lines.pop()
    return lines


def norm_stream(st):
    out = []
    for x in st:
        if x[0] == 'text':
            n = norm_text(x[1])
            if n != ['']:
                out.append(['text', n])
        elif x[0] == 'open':
            out.append(['open', x[1], [[a, norm_text(v) if v else v] for a, v in (x[2] if len(x) > 2 else [])]])
        else:
            out.append(x)
    return out


def clean(text):
    if isinstance(text, str):
        return None
    return [l.strip() for l in text if l.strip()]


def joined(text):
    return ('\n'.join(text) if not isinstance(text, str) else text).strip()


def T(s):
    return [['text', s]] if s else []


def el(name, inner, attrs=None):
    return [['open', name, attrs or []]] + inner + [['close', name]]


def lines_of(text):
    "the units an implicit repeater iterates over"
    c = clean(text)
    if c is None:
        return [text.strip()] if True else []
    return c


# shapes: (abbreviation, builder(text) -> expected stream)
def implicit(per_line, outer=None):
    def b(text):
        if isinstance(text, str):
            # a single string with an implicit repeater: one copy carrying the whole (stripped) text
            units = [text.strip()]
        else:
            units = clean(text)
        inner = []
        for i, l in enumerate(units):
            inner += per_line(l, i + 1)
        return outer(inner) if outer else inner
    return b


def plain(build):
    return lambda text: build(joined(text))


SHAPES = [
    ('x-u>x-l*', implicit(lambda l, i: el('x-l', T(l)), lambda inner: el('x-u', inner))),
    ('x-u>x-l*>x-b', implicit(lambda l, i: el('x-l', el('x-b', T(l))), lambda inner: el('x-u', inner))),
    ('x-u>x-l*>x-b+x-i', implicit(lambda l, i: el('x-l', el('x-b', []) + el('x-i', T(l))), lambda inner: el('x-u', inner))),
    ('x-u>x-l[title=$#]*>x-b{$#}', implicit(lambda l, i: el('x-l', el('x-b', T(l)), [['title', '"%s"' % l]]), lambda inner: el('x-u', inner))),
    ('x-u>x-l{$#}*', implicit(lambda l, i: el('x-l', T(l)), lambda inner: el('x-u', inner))),
    ('x-l{[$#]}*>x-b', implicit(lambda l, i: el('x-l', T('[' + l + ']') + el('x-b', [])))),
    ('(x-p>x-b)*', implicit(lambda l, i: el('x-p', el('x-b', T(l))))),
    ('(x-p>x-b)*+x-i', lambda text: implicit(lambda l, i: el('x-p', el('x-b', T(l))))(text) + el('x-i', [])),
    ('x-l*', implicit(lambda l, i: el('x-l', T(l)))),
    ('x-l.c$*', implicit(lambda l, i: el('x-l', T(l), [['class', '"c%d"' % i]]))),
    ('x-l[data-t="$#"]*', implicit(lambda l, i: el('x-l', [], [['data-t', '"%s"' % l]]))),
    ('x-l{$# - $#}*', implicit(lambda l, i: el('x-l', T(l + ' - ' + l)))),
    ('x-t>(x-r>x-d*)', implicit(lambda l, i: el('x-d', T(l)), lambda inner: el('x-t', el('x-r', inner)))),
    # the element that takes the line has a text of its own that ENDS WITH A TABSTOP: the line is appended, nothing is replaced
    ('x-l{Note: ${1}}*', implicit(lambda l, i: el('x-l', T('Note: ' + l)))),
    ('x-u>x-l{a ${1:b}}*', implicit(lambda l, i: el('x-l', T('a b' + l)), lambda inner: el('x-u', inner))),
    ('x-d>x-p{Total${0}}', plain(lambda t: el('x-d', el('x-p', T('Total' + t))))),
    ('x-u>x-l', plain(lambda t: el('x-u', el('x-l', T(t))))),
    ('x-d', plain(lambda t: el('x-d', T(t)))),
    ('x-u>x-l+x-m', plain(lambda t: el('x-u', el('x-l', []) + el('x-m', T(t))))),
    ('x-u>(x-l>x-b)+x-m>x-n', plain(lambda t: el('x-u', el('x-l', el('x-b', [])) + el('x-m', el('x-n', T(t)))))),
    # a placeholder but NO implicit repeater: the whole text, once, in the deepest last element (which is where the placeholder stands)
    ('x-d>x-p{$#}', plain(lambda t: el('x-d', el('x-p', T(t))))),
    ('x-d>x-q+x-p{$#}', plain(lambda t: el('x-d', el('x-q', []) + el('x-p', T(t))))),
]
# a placeholder in the place of an attribute NAME: the line is the name, with whatever punctuation it carries (`a.` is not "boolean a", `!b` is not "implied b")
NAME_SHAPES = [
    ('x-l[$#=v]*', implicit(lambda l, i: el('x-l', [], [[l, '"v"']]))),
    ('x-u>x-l[$#="w" k=1]*>x-b', implicit(lambda l, i: el('x-l', el('x-b', []), [[l, '"w"'], ['k', '"1"']]), lambda inner: el('x-u', inner))),
    ('x-l[d-$#=v]*', implicit(lambda l, i: el('x-l', [], [['d-' + l, '"v"']]))),
]
# D2: the element that takes the text is written by a snippet name whose definition has a deeper last element (open finding: the text is put on the
# alias before its definition replaces it, and then counts as text written on the alias - it lands on the top-level elements of the definition)
ALIAS_TABLE = {'vrow': 'x-r>x-d', 'vli': 'x-l>x-k[h]', 'vtwo': 'x-m+x-n>x-o'}
ALIAS_SHAPES = [
    ('vrow', plain(lambda t: el('x-r', el('x-d', T(t)))), ALIAS_TABLE),
    ('x-u>vli*', implicit(lambda l, i: el('x-l', el('x-k', T(l), [['h', '""']])), lambda inner: el('x-u', inner)), ALIAS_TABLE),
    ('x-p>vrow', plain(lambda t: el('x-p', el('x-r', el('x-d', T(t))))), ALIAS_TABLE),
    ('vtwo*', implicit(lambda l, i: el('x-m', []) + el('x-n', el('x-o', T(l)))), ALIAS_TABLE),
]
# how blank lines around the text are trimmed at a placeholder outside any repeater is not defined: compared modulo blanks
LOOSE_SHAPES = {'x-d>x-p{$#}', 'x-d>x-q+x-p{$#}'}
NAME_LINES = ['a', 'a.', '!b', 'c.d', 'k!', 'e.f.', '!g.', 'data-x', 'x:y', 'h..']
LINES = ['a', '', '  b  ', 'ul>li*3', '$#', '${1}', 'item $', '*', '{x}', '[a=b]', ' ', 'x y z', 'é ü', 'a\\b', '(c)+d^e', '$$@-3', '"q"', "it's", 'a{b}c',
         '\\{', '}', '.cls#id', 'lorem10', 'a*', '$', 'p>{t}', '@', '100%', '1. first', '- second', '\t tab', 'x/', '!', 'a:b=c']


# ---- generated wrap shapes: one implicit repeater anywhere in a random tree, explicit repeaters around / inside it,
# $# sites only inside the implicit subtree; the model unrolls the written tree line by line.
class WNode:
    __slots__ = ('name', 'rep', 'text', 'attr', 'ch', 'group')

    def __init__(self):
        self.name = None
        self.rep = None       # None | int | '*'
        self.text = None      # text template with $# sites, or plain text
        self.attr = None      # attribute value template (may contain $#)
        self.ch = []
        self.group = False


def gen_wrap_tree(rng):
    counter = [0]

    def node(depth):
        n = WNode()
        if depth < 3 and rng.random() < 0.15:
            n.group = True
            n.ch = [node(depth + 1) for _ in range(rng.randint(1, 2))]
        else:
            counter[0] += 1
            n.name = 'x-%s' % 'abcdefghijklmnop'[counter[0] % 16]
            if depth < 3 and rng.random() < 0.55:
                n.ch = [node(depth + 1) for _ in range(rng.randint(1, 2))]
        if rng.random() < 0.3:
            n.rep = rng.choice([2, 2, 3])
        return n
    root = [node(0) for _ in range(rng.randint(1, 2))]
    allnodes = []

    def collect(ns):
        for n in ns:
            allnodes.append(n)
            collect(n.ch)
    collect(root)
    imp = rng.choice(allnodes)
    imp.rep = '*'

    # the implicit repeater is executed once: no explicitly repeated ancestor (what a second execution receives is not defined)
    def strip(ns):
        for n in ns:
            if n is imp:
                return True
            if strip(n.ch):
                n.rep = None
                return True
        return False
    strip(root)
    inside = []

    def collect_in(ns):
        for n in ns:
            if not n.group:
                inside.append(n)
            collect_in(n.ch)
    collect_in([imp])
    if rng.random() < 0.6:
        for n in rng.sample(inside, min(len(inside), rng.randint(1, 2))):
            if rng.random() < 0.6:
                n.text = rng.choice(['$#', '[$#]', 'a $# b', '$# - $#'])
            else:
                n.attr = rng.choice(['$#', 'v-$#'])
    if rng.random() < 0.15:
        # a second implicit repeater nested in the first, with a placeholder of its own: `$#` stands for the line of the CLOSEST implicit copy
        desc = []

        def collect_desc(ns, path):
            for n in ns:
                desc.append((n, path))
                collect_desc(n.ch, path + [n])
        collect_desc(imp.ch, [])
        if desc:
            imp2, path = rng.choice(desc)
            for m in path:
                m.rep = None        # nothing explicit between the two (what a re-executed implicit repeater receives is not defined)
            imp2.rep = '*'
            els = []

            def collect_els(ns):
                for n in ns:
                    if not n.group:
                        els.append(n)
                    collect_els(n.ch)
            collect_els([imp2])
            if els:
                rng.choice(els).text = rng.choice(['$#', '<$#>'.replace('<', '(').replace('>', ')'), 'i $#'])
            else:
                imp2.rep = None
    for n in allnodes:
        if not n.group and n.text is None and rng.random() < 0.15:
            n.text = rng.choice(['t', 'k '])
    return root, imp


def wrap_write(nodes):
    parts = []
    for n in nodes:
        if n.group:
            s = '(' + wrap_write(n.ch) + ')'
        else:
            s = n.name
            if n.attr is not None:
                s += '[t="%s"]' % n.attr
            if n.text is not None:
                s += '{%s}' % n.text
        if n.rep is not None:
            s += '*' if n.rep == '*' else '*%d' % n.rep
        if not n.group and n.ch:
            s += '>' + wrap_write(n.ch)
            if len(nodes) > 1:
                s = '(' + s + ')'
        parts.append(s)
    return '+'.join(parts)


def has_placeholder(n):
    return ('$#' in (n.text or '')) or ('$#' in (n.attr or '')) or any(has_placeholder(c) for c in n.ch)


def wrap_model(nodes, lines, line=None):
    "expected output tree: list of [name, attr|None, text|None, children]"
    out = []
    for n in nodes:
        if n.rep == '*':
            for l in lines:
                items = wrap_model_one(n, lines, l)
                if not has_placeholder(n) and items:
                    t = items[-1]
                    while t[3]:
                        t = t[3][-1]
                    t[2] = (t[2] or '') + l
                out += items
        else:
            for _ in range(n.rep or 1):
                out += wrap_model_one(n, lines, line)
    return out


def wrap_model_one(n, lines, line):
    if n.group:
        return wrap_model(n.ch, lines, line)
    sub = (lambda s: s.replace('$#', line if line is not None else '')) if True else None
    return [[n.name, sub(n.attr) if n.attr is not None else None, sub(n.text) if n.text is not None else None, wrap_model(n.ch, lines, line)]]


def wrap_flat(tree):
    out = []
    for name, attr, text, ch in tree:
        out.append(['open', name, [['t', '"%s"' % attr]] if attr is not None else []])
        if text:
            out.append(['text', text])
        out += wrap_flat(ch)
        out.append(['close', name])
    return out


def field_text_cases(mon):
    """Text around a tabstop field, and text that ends in / consists of line breaks: with formatting off nothing but the text itself decides
    what is written - the text before the field, the children (they take the place of the first field), the text after it, character for
    character, line breaks and blanks at the seams included (LF stands for any line break)."""
    import emmet
    ctx = mon.ctx
    befores = ['a ', 'a\nb ', '', 'x\n', ' ', 'q\n\n', 'w\r\n']
    afters = [' c', '  c', '\tc', 'c', ' c\nd', '', '\nz', ' ']
    kids = [('i', '<i></i>'), ('i+b', '<i></i><b></b>'), ('x-q{t}', '<x-q>t</x-q>')]
    for be in befores:
        for af in afters:
            for ab, html in kids:
                abbr = 'p{%s${1}%s}>%s' % (be, af, ab)
                ctx.ev('inline:field-with-children')
                ctx.mon('oracle:text-around-field')
                r = core.call(emmet.expand, abbr, {'options': {'output.format': False}})
                want = '<p>' + (be + html + af).replace('\r\n', '\n') + '</p>'
                case = {'part': 'field-text', 'abbr': abbr, 'expected': want}
                if r[0] == 'exc':
                    ctx.violation('exception', case, {'exc': list(core.exc_site(r[1]))})
                elif r[1] != want:
                    ctx.violation('text-not-verbatim', case, {'output': r[1][:200]})
                else:
                    ctx.seen(('field-text', abbr))
    # leaf texts that end in a line break, fields at line starts
    for text in ['a\n', 'a\n\n', '\n', '${1:t}:\n${2:d}', 'x\n${1}', '${1}\ny', 'a\n${1}\n', '\n\nb']:
        abbr = 'p{%s}' % text
        ctx.ev('inline:field-with-children')
        ctx.mon('oracle:text-around-field')
        r = core.call(emmet.expand, abbr, {'options': {'output.format': False, 'output.field': lambda index, placeholder, **kw: placeholder}})
        plain = re.sub(r'\$\{\d+(?::([^}]*))?\}', lambda m: m.group(1) or '', text)
        # a text with line breaks is set off on lines of its own (one indent unit deeper), also with formatting off: compared without the tabs
        want = '<p>\n' + plain + '\n</p>' if '\n' in plain else '<p>' + plain + '</p>'
        case = {'part': 'field-text', 'abbr': abbr, 'expected': want}
        if r[0] == 'exc':
            ctx.violation('exception', case, {'exc': list(core.exc_site(r[1]))})
        elif r[1].replace('\t', '') != want:
            ctx.violation('text-not-verbatim', case, {'output': r[1][:200]})
        else:
            ctx.seen(('field-text', abbr))


def shards(tier, seed):
    n = 12 if tier == 'quick' else 16
    b = BOUNDS[tier]
    return [dict(b, part=p, nparts=n, seed=seed) for p in range(n)]


def run_shard(desc, ctx):
    mon = Mon(ctx)
    pr = probes.Probes().add('emmet.abbreviation.tokenizer:literal').add('emmet.abbreviation.parser:text').add('emmet.abbreviation.parser:get_text') \
        .add('emmet.abbreviation.convert:insert_text').add('emmet.abbreviation.stringify:RepeaterPlaceholder').install()
    try:
        if desc['part'] == 0:
            field_text_cases(mon)
        k = 0
        for p in enum.strings(ALPHA, desc['maxlen'], desc['part'], desc['nparts'], stride=desc['stride'], offset=desc['seed'] % desc['stride']):
            for enc in (0, 1, 2):
                for ti in range(len(TEMPLATES)):
                    if enc == 2 and ti not in (0, 2):
                        continue
                    k += 1
                    mon.inline(p, enc, ti, 'inline:enum')
        rng = ctx.rng
        extra = ['ж', '中', '\t', '~', '%', ',', ';', '?', '|', '&', '2', 'Z', '_',
                 '\x0c', '\x85', '\u2028', '\x0b', '\x1c', '\u2029', '\xa0', '\u3000', 'e\u0301', '\u200b']      # characters str.splitlines() / str.split() treat specially: text all the same
        for _ in range(desc['random']):
            L = rng.randint(4, 30) if rng.random() < 0.85 else rng.randint(31, 160)
            p = ''.join(rng.choice(ALPHA) if rng.random() < 0.9 else rng.choice(extra) for _ in range(L))
            for ti in range(len(TEMPLATES)):
                mon.inline(p, rng.randint(0, 2), ti, 'inline:random')
            q = nested_payload(rng)
            mon.inline(q, rng.randint(0, 1), rng.randrange(len(TEMPLATES)), 'inline:nested')
        import emmet as _em
        from emmet.scanner import ScannerException as _SE
        from emmet.token_scanner import TokenScannerException as _TE
        for ab in stretch.near_miss_inputs(rng, ['p{<%s}', 'li{<%s/>}*2', 'ul>li{<%s}+li', 'p{%s}', '{<%s}'], 12):
            stretch.must_return(ctx, _em.expand, (ab, {'options': {'output.format': rng.random() < 0.5}}), {'part': 'near-miss', 'abbr': ab, '_allowed': (_SE, _TE)})
        for line in stretch.near_miss_inputs(rng, stretch.WRAP_RUN_LINES, 12):
            stretch.must_return(ctx, _em.expand, (rng.choice(['ul>li*', 'p', 'div>p*>b']), {'text': [line, 'two']}), {'part': 'near-miss', 'wrap_line': line, '_allowed': (_SE, _TE)})
        for _ in range(desc['wrap'] // 2):
            root, imp = gen_wrap_tree(rng)
            lines = [rng.choice(LINES) for _ in range(rng.randint(0, 5))]
            lines = [l for l in lines if '"' not in l]
            clean_lines = [l.strip() for l in lines if l.strip()]
            ab = wrap_write(root)
            exp = wrap_flat(wrap_model(root, clean_lines))
            mon.wrap((ab, lambda text, e=exp: e), lines, 'wrap:generated')
        for _ in range(desc['wrap']):
            shape = rng.choice(SHAPES)
            r = rng.random()
            if r < 0.8:
                text = [rng.choice(LINES) for _ in range(rng.randint(0, 6) if rng.random() < 0.85 else rng.randint(7, 40))]
            elif r < 0.9:
                text = rng.choice(['foo', ' a b ', 'ul>li*3', '$# ${1}', 'l1\nl2', ' x\n  y\n'])
            else:
                text = [''.join(rng.choice(ALPHA) for _ in range(rng.randint(1, 12))).replace('<', '') for _ in range(rng.randint(1, 4))]
            mon.wrap(shape, text, 'wrap')
        for _ in range(desc['wrap'] // 20):
            mon.wrap(rng.choice(ALIAS_SHAPES), [rng.choice(['a', 'b c', 'x y z', 'd']) for _ in range(rng.randint(1, 3))] if rng.random() < 0.8 else 'one text', 'wrap:alias-d2')
        for _ in range(desc['wrap'] // 10):
            mon.wrap(rng.choice(NAME_SHAPES), [rng.choice(NAME_LINES) for _ in range(rng.randint(1, 4))], 'wrap:name-site')
    finally:
        pr.uninstall()
    for k2, v in pr.reach().items():
        ctx.mon('reach:' + k2, v)


def replay(case, ctx):
    mon = Mon(ctx)
    if case['part'] == 'inline':
        ctx.ev('replay')
        r = core.call(mon.expand, case['abbr'], {'options': {'output.format': False}})
        if r[0] == 'exc':
            ctx.violation('exception', case, {'exc': list(core.exc_site(r[1]))})
        else:
            try:
                act = observe(r[1])
            except outparse.OutParseError as e:
                ctx.violation('unparseable-output', case, {'output': r[1][:200], 'parser': str(e)})
                return
            if act != case['expected']:
                ctx.violation('text-not-verbatim', case, {'output': r[1][:200], 'actual': act})
    else:
        shape = [s for s in SHAPES + NAME_SHAPES + ALIAS_SHAPES if s[0] == case['abbr']]
        if shape:
            mon.wrap(shape[0], case['text'], 'replay')


def _alias_text(rec):
    """Wrap text is put on the deepest last element of the abbreviation AS WRITTEN; when that element is a snippet name, the definition replaces it
    afterwards and treats the text like text written on the alias (it goes to the top-level elements of the definition).  Explains only the D2
    alias shapes, and only when the output holds the same tags and the same texts as expected - placed elsewhere."""
    c = rec['case']
    if c.get('domain') != 'd2-alias' or rec['kind'] != 'wrap-text':
        return False
    e, a = rec['detail'].get('expected') or [], rec['detail'].get('actual') or []
    key = lambda st: sorted(json.dumps(x, sort_keys=True) for x in st)
    texts = lambda st: sorted(json.dumps(x[1]) for x in st if x[0] == 'text')
    tags = lambda st: [x[:2] for x in st if x[0] != 'text']
    return tags(e) == tags(a) and set(texts(e)) == set(texts(a)) and e != a        # (a definition with several top-level elements gets the text on each of them)


CLASSIFIERS = {'C04-wrap-text-on-an-alias-stays-on-its-top-element': _alias_text}
