"""C20 - configuration layers override each other in the documented order.

Refuting events: Config(user, global).<kind>[key] (or the same value seen through expand
output) differs from the value of the most specific defining layer; a bystander key changes;
a built-in table or a caller dictionary is modified; an unknown syntax does not resolve to
the type defaults."""
import copy
import itertools
import re

from .. import core

ID = 'C20'
RULE = ('cases = (type, syntax, kind in options/snippets/variables, key in existing/new, subset of the 5 overriding layers); '
        'all 2^5 subsets x 3 kinds x 2 keys x every known syntax of both types + 2 unknown syntax names, each observed on '
        'Config(...) and through expand(); layers 1-2 (type / syntax defaults) are exercised by temporarily binding '
        'emmet.config.SYNTAX_CONFIG to an extended deep copy; plus sampled multi-key configurations: 2-6 keys of mixed kinds, each with its own random layer subset, '
        'with decoy values in the layers of another syntax and of the other type (must never be consulted). Non-trivial = at least two layers define the key; distinct by the case tuple')
ASSUMPTIONS = ['layer order: defaults < type defaults < syntax defaults < global[type] < global[syntax] < call config',
               'emmet.config.SYNTAX_CONFIG is looked up at call time (if the attribute disappears only layers 3-5 are varied and the evidence says so)',
               'the caller-visible `text` key of the call config is judged by C08, not here']
FLOORS = {'quick': {'config': 6000, 'expand': 2500, 'unknown-syntax': 4, 'immutability': 4000, 'multi-key': 6000},
          'thorough': {'config': 6000, 'expand': 2500, 'unknown-syntax': 4, 'immutability': 4000, 'multi-key': 400000}}
NMULTI = {'quick': 300, 'thorough': 20000}
REQUIRED_MONITORS = ['oracle:layer-order', 'oracle:expand-layer', 'oracle:resolved-tables-are-copies', 'oracle:layer-order-multi', 'oracle:expand-layer-multi', 'oracle:bystanders', 'oracle:builtin-digest', 'oracle:caller-digest']

SYN = {'markup': ['html', 'xml', 'xsl', 'jsx', 'js', 'pug', 'slim', 'haml', 'vue', 'svelte', 'xhtml', 'nosuch', 'my-syntax'],
       'stylesheet': ['css', 'sass', 'scss', 'less', 'sss', 'stylus', 'nosuch', 'my-syntax']}
# (kind, key, values per layer 1..5)
KEYS = {
    'markup': [('options', 'output.indent', ['<1>', '<2>', '<3>', '<4>', '<5>']),
               ('options', 'vmon.sentinel', ['L1', 'L2', 'L3', 'L4', 'L5']),
               ('options', 'markup.attributes', [{'class': 'c%d' % i, 'k%d' % i: 'v'} for i in range(1, 6)]),
               ('options', 'inlineElements', [['a', 'l%d' % i] for i in range(1, 6)]),
               ('options', 'output.selfClosingStyle', ['xml', 'xhtml', 'html', 'xml', 'xhtml']),
               ('snippets', 'vsnip', ['x-la', 'x-lb', 'x-lc', 'x-ld', 'x-le']),
               ('snippets', 'bq', ['x-la', 'x-lb', 'x-lc', 'x-ld', 'x-le']),
               ('snippets', 'iframe', ['x-fa', 'x-fb', 'x-fc', 'x-fd', 'x-fe']),       # also observed through its built-in alias `ifr`
               ('snippets', 'textarea', ['x-ta', 'x-tb', 'x-tc', 'x-td', 'x-te']),     # ... `tarea`
               ('variables', 'vvar', ['V1', 'V2', 'V3', 'V4', 'V5']),
               ('variables', 'lang', ['V1', 'V2', 'V3', 'V4', 'V5'])],
    'stylesheet': [('options', 'stylesheet.between', ['<1>', '<2>', '<3>', '<4>', '<5>']),
                   ('options', 'vmon.sentinel', ['L1', 'L2', 'L3', 'L4', 'L5']),
                   ('options', 'stylesheet.unitAliases', [{'e': 'u%d' % i, 'k%d' % i: 'v'} for i in range(1, 6)]),
                   ('options', 'stylesheet.unitless', [['z-index', 'l%d' % i] for i in range(1, 6)]),
                   ('options', 'stylesheet.after', ['<1>', '<2>', '<3>', '<4>', '<5>']),
                   ('snippets', 'vsnip', ['vprop-la', 'vprop-lb', 'vprop-lc', 'vprop-ld', 'vprop-le']),
                   ('snippets', 'bd', ['vprop-la', 'vprop-lb', 'vprop-lc', 'vprop-ld', 'vprop-le']),
                   ('variables', 'vvar', ['V1', 'V2', 'V3', 'V4', 'V5']),
                   ('variables', 'lang', ['V1', 'V2', 'V3', 'V4', 'V5'])],
}
ABSENT = '<absent>'


def describe(tier):
    return {'exhaustive': True, 'bounds': {'layer_subsets': 32, 'syntaxes': SYN, 'keys': {t: [(k[0], k[1]) for k in v] for t, v in KEYS.items()}}}


def digest(o, _depth=0):
    if isinstance(o, dict):
        return ('d', tuple((repr(k), digest(v, _depth + 1)) for k, v in sorted(o.items(), key=lambda kv: repr(kv[0]))))
    if isinstance(o, (list, tuple)):
        return ('l', tuple(digest(v, _depth + 1) for v in o))
    if callable(o):
        return ('f', id(o))
    return repr(o)


def caller_digest(u):
    "the call config without its top-level `text` key (parked/restored by markup.parse: judged by C08)"
    return digest({k: v for k, v in u.items() if k != 'text'})


def shards(tier, seed):
    out = []
    for typ, syns in SYN.items():
        for syn in syns:
            out.append({'type': typ, 'syntax': syn})
    out.append({'unknown': True})
    return out


def builtin_tables():
    import emmet.config as C
    import emmet.snippets as S
    t = [C.DEFAULT_CONFIG, C.DEFAULT_OPTIONS, getattr(C, 'SYNTAX_CONFIG', None), C.DEFAULT_SYNTAXES, C.SYNTAXES]
    for n in ('markup_snippets', 'stylesheet_snippets', 'xsl_snippets', 'pug_snippets', 'variables'):
        t.append(getattr(S, n, None))
    return t


def expected_value(C, orig_sc, typ, syn, kind, key, subset, vals):
    "most specific defining layer wins; natural (built-in) layer values count when the layer is not overridden"
    v = C.DEFAULT_CONFIG.get(kind, {}).get(key, ABSENT)
    nat1 = orig_sc.get(typ, {}).get(kind, {}).get(key, ABSENT)
    nat2 = orig_sc.get(syn, {}).get(kind, {}).get(key, ABSENT)
    for on, nat, val in ((subset[0], nat1, vals[0]), (subset[1], nat2, vals[1])):
        if on:
            v = val
        elif nat is not ABSENT:
            v = nat
    for on, val in zip(subset[2:], vals[2:]):
        if on:
            v = val
    return v


def observe_expand(typ, kind, key, u, g):
    "returns the layer value as it shows in expand() output (or None when this key is not observable that way)"
    import emmet
    if typ == 'markup':
        if (kind, key) == ('options', 'output.indent'):
            out = emmet.expand('x-a>x-b', u, g)
            lines = out.split('\n')
            return lines[1].split('x-b')[0].rstrip('<%') if len(lines) >= 2 and 'x-b' in lines[1] else ('?' + out)
        if kind == 'snippets':
            out = emmet.expand(key, u, g)
            m = re.match(r'[<%]?([\w:-]+)', out)
            direct = m.group(1) if m else ('?' + out)
            alias = {'iframe': 'ifr', 'textarea': 'tarea'}.get(key)
            if alias and direct.startswith('x-'):
                # a built-in alias of this key resolves through the SAME layered table (it is not overridden itself)
                out2 = emmet.expand(alias, u, g)
                return direct if out2 == out else 'direct=%s | through the alias %s=%s' % (out[:80], alias, out2[:80])
            return direct
        if kind == 'variables':
            out = emmet.expand('x-a{${%s}}' % key, u, g)
            m = re.search(r'x-a(?:>| )(.*?)(?:</x-a>)?$', out)
            direct = m.group(1) if m else ('?' + out)
            # the same variable used INSIDE a snippet (snippets are parsed with the resolved configuration as their options)
            u2 = copy.deepcopy(u)
            u2['snippets'] = dict(u2.get('snippets') or {}, vvs='x-a{${%s}}' % key)
            out2 = emmet.expand('vvs', u2, g)
            m2 = re.search(r'x-a(?:>| )(.*?)(?:</x-a>)?$', out2)
            inside = m2.group(1) if m2 else ('?' + out2)
            return direct if inside == direct else 'direct=%s | inside a snippet=%s' % (direct, inside)
    else:
        if (kind, key) == ('options', 'stylesheet.between'):
            out = emmet.expand('p10', u, g)
            return out[len('padding'):out.index('10px')] if out.startswith('padding') and '10px' in out else ('?' + out)
        if kind == 'snippets':
            out = emmet.expand(key, u, g)
            m = re.match(r'[\w-]+', out)        # property name: independent of the between / after options varied next to it
            return m.group(0) if m else ('?' + out)
    return None


def call_config(typ, syn, form, extra=None):
    """the call's own config in one of its equivalent spellings: explicit type + syntax; syntax omitted (effective syntax = the
    type's default); type and syntax omitted (markup / html)"""
    if form == 'nosyntax':
        u = {'type': typ}
    elif form == 'bare':
        u = {}
    else:
        u = {'type': typ, 'syntax': syn}
    # the other documented top-level keys of a call's config ride along on most calls (no key of them is a layer, none may be added, rewritten
    # or re-spelled in the caller's dictionary): the repeat limit in both spellings, a markup context
    if extra is not None:        # replay: the keys the recorded case had
        u.update(copy.deepcopy(extra))
        return u
    CALL_CONFIGS[0] += 1
    k = CALL_CONFIGS[0] % 5
    if k == 1:
        u['maxRepeat'] = 7
    elif k == 2:
        u['max_repeat'] = 5
    elif k == 3 and typ == 'markup':
        u['context'] = {'name': 'x-ctx', 'attributes': {'k': 'v'}}
    elif k == 4:
        u['maxRepeat'] = None
    return u


CALL_CONFIGS = [0]


def forms_for(typ, syn):
    f = ['explicit']
    if syn == {'markup': 'html', 'stylesheet': 'css'}[typ]:
        f.append('nosyntax')
        if typ == 'markup':
            f.append('bare')
    return f


def alias_check(ctx, C, cfg, u, g, case):
    """The resolved tables belong to the Config object: none of them may BE a built-in table (whoever tunes cfg.options[...] in place -
    the repository's own tests do - would otherwise rewrite the defaults of the process: a built-in table modified through merging).
    Sharing a dictionary with the CALLER is not judged: the caller's own writes to its own object are its business."""
    ctx.mon('oracle:resolved-tables-are-copies')
    sources = []
    sc = getattr(C, 'SYNTAX_CONFIG', {}) or {}
    for kind in ('options', 'snippets', 'variables'):
        sources.append(('DEFAULT_CONFIG[%s]' % kind, C.DEFAULT_CONFIG.get(kind)))
        for name, sect in sc.items():
            sources.append(('SYNTAX_CONFIG[%s][%s]' % (name, kind), sect.get(kind)))
    sources.append(('DEFAULT_OPTIONS', C.DEFAULT_OPTIONS))
    for kind in ('options', 'snippets', 'variables'):
        tbl = getattr(cfg, kind)
        for label, src in sources:
            if src is not None and tbl is src:
                ctx.violation('resolved-table-is-an-input-table', case, {'table': 'Config.' + kind, 'is': label})
                return


def run_combo(ctx, C, typ, syn, kind, key, vals, subset, orig_sc, can_patch, form='explicit', extra=None):
    from emmet.config import Config
    L1, L2, L3, L4, L5 = subset
    sc = copy.deepcopy(orig_sc)
    if L1:
        sc.setdefault(typ, {}).setdefault(kind, {})
        sc[typ][kind] = dict(sc[typ][kind])
        sc[typ][kind][key] = vals[0]
    if L2:
        sc.setdefault(syn, {}).setdefault(kind, {})
        sc[syn][kind] = dict(sc[syn][kind])
        sc[syn][kind][key] = vals[1]
    g = {}
    if L3:
        g[typ] = {kind: {key: vals[2]}}
    if L4:
        g.setdefault(syn, {})[kind] = {key: vals[3]}
    u = call_config(typ, syn, form, extra)
    call_extra = {k: copy.deepcopy(v) for k, v in u.items() if k in ('maxRepeat', 'max_repeat', 'context')}
    if L5:
        u[kind] = {key: vals[4]}
    u0, g0 = caller_digest(u), digest(g)
    case = {'type': typ, 'syntax': syn, 'kind': kind, 'key': key, 'subset': list(subset), 'form': form, 'call_extra': call_extra}
    exp = expected_value(C, orig_sc, typ, syn, kind, key, subset, vals)
    if can_patch:
        C.SYNTAX_CONFIG = sc
    try:
        r = core.call(Config, u, g)
        ctx.ev('config')
        ctx.mon('oracle:layer-order')
        if r[0] == 'exc':
            ctx.violation('config-exception', case, {'exc': list(core.exc_site(r[1]))})
            return None
        cfg = r[1]
        alias_check(ctx, C, cfg, u, g, case)
        got = getattr(cfg, kind).get(key, ABSENT)
        if got != exp:
            ctx.violation('wrong-layer', case, {'expected': exp, 'actual': got, 'where': 'Config.' + kind})
        else:
            # the object's own accessor (what the library's modules read a resolved value through) shows the same effective value
            ctx.mon('oracle:accessor-shows-effective-value')
            tbl = core.call(cfg.get, kind)
            via = tbl[1].get(key, ABSENT) if tbl[0] == 'ok' and isinstance(tbl[1], dict) else 'no table: %r' % (tbl[1],)
            if via != exp:
                ctx.violation('wrong-layer', case, {'expected': exp, 'actual': via, 'where': 'Config.get(%r)' % kind})
        # through expand (fresh copies of the caller dictionaries)
        want = exp
        if kind == 'snippets' and exp is ABSENT:
            want = key if typ == 'markup' else None     # unmatched stylesheet key: fuzzy search decides (C06)
        elif kind == 'snippets' and typ == 'stylesheet':
            want = exp.split(':')[0]
        elif kind == 'snippets':
            want = re.match(r'[\w:-]+', exp).group(0)      # the element a markup definition starts with
        if kind == 'variables' and exp is ABSENT:
            want = None
        if want is not None:
            ru = core.call(observe_expand, typ, kind, key, u, g)
            if ru[0] == 'exc':
                ctx.ev('expand')
                ctx.mon('oracle:expand-layer')
                ctx.violation('expand-exception', case, {'exc': list(core.exc_site(ru[1]))})
            elif ru[1] is not None:
                ctx.ev('expand')
                ctx.mon('oracle:expand-layer')
                if ru[1] != want:
                    ctx.violation('wrong-layer', case, {'expected': want, 'actual': ru[1], 'where': 'expand output'})
                elif sum(subset) >= 3:
                    ctx.sample({'case': case, 'resolved': got, 'seen_in_expand_output': ru[1]}, 3)
    finally:
        if can_patch:
            C.SYNTAX_CONFIG = orig_sc
    ctx.ev('immutability')
    ctx.mon('oracle:caller-digest')
    if caller_digest(u) != u0 or digest(g) != g0:
        ctx.violation('caller-dict-mutated', case, {'user': repr(u)[:300], 'global': repr(g)[:300]})
    if sum(subset) >= 2:
        ctx.seen(case)
    ctx.state('winner', '%s:%d' % (kind, max([i + 1 for i, on in enumerate(subset) if on], default=0)))
    ctx.state('call-config-form', form)
    return cfg


def run_multi(ctx, C, typ, syn, rng, orig_sc, can_patch):
    """Several keys of mixed kinds at once, each defined by its own random subset of layers, plus decoy values in the
    layers of ANOTHER syntax and of the OTHER type: every key must resolve to its own most specific layer (a layer that
    replaces a whole table instead of merging into it, or reads a neighbour's layer, shows only with more than one key)."""
    from emmet.config import Config
    keys = rng.sample(KEYS[typ], rng.randint(2, min(6, len(KEYS[typ]))))
    other_typ = 'stylesheet' if typ == 'markup' else 'markup'
    other_syn = rng.choice([s for s in SYN[typ] + SYN[other_typ] if s != syn and s != typ])
    sc = copy.deepcopy(orig_sc)
    g = {}
    form = rng.choice(forms_for(typ, syn))
    u = call_config(typ, syn, form)
    plan = []
    for kind, key, vals in keys:
        subset = tuple(rng.random() < 0.45 for _ in range(5))
        if not can_patch:
            subset = (False, False) + subset[2:]
        plan.append((kind, key, vals, subset))
        if subset[0]:
            sc.setdefault(typ, {})
            sc[typ][kind] = dict(sc[typ].get(kind, {}))
            sc[typ][kind][key] = vals[0]
        if subset[1]:
            sc.setdefault(syn, {})
            sc[syn][kind] = dict(sc[syn].get(kind, {}))
            sc[syn][kind][key] = vals[1]
        if subset[2]:
            g.setdefault(typ, {}).setdefault(kind, {})[key] = vals[2]
        if subset[3]:
            g.setdefault(syn, {}).setdefault(kind, {})[key] = vals[3]
        if subset[4]:
            u.setdefault(kind, {})[key] = vals[4]
        # decoys: layers that must not be consulted for (typ, syn)
        if rng.random() < 0.7:
            g.setdefault(other_syn, {}).setdefault(kind, {})[key] = 'DECOY-syntax' if not isinstance(vals[0], (dict, list)) else type(vals[0])()
        if rng.random() < 0.5 and other_typ != syn:
            g.setdefault(other_typ, {}).setdefault(kind, {})[key] = 'DECOY-type' if not isinstance(vals[0], (dict, list)) else type(vals[0])()
        if can_patch and rng.random() < 0.5 and other_syn not in (typ, syn):
            sc.setdefault(other_syn, {})
            sc[other_syn][kind] = dict(sc[other_syn].get(kind, {}))
            sc[other_syn][kind][key] = 'DECOY-syntax-default' if not isinstance(vals[0], (dict, list)) else type(vals[0])()
    u0, g0 = caller_digest(u), digest(g)
    case = {'multi': True, 'type': typ, 'syntax': syn, 'other_syntax': other_syn, 'plan': [[k, kk, list(s)] for k, kk, v, s in plan], 'user': u, 'global': g}
    if can_patch:
        C.SYNTAX_CONFIG = sc
    try:
        ctx.ev('multi-key')
        r = core.call(Config, copy.deepcopy(u), copy.deepcopy(g))
        if r[0] == 'exc':
            ctx.violation('config-exception', case, {'exc': list(core.exc_site(r[1]))})
            return
        cfg = r[1]
        for kind, key, vals, subset in plan:
            exp = expected_value(C, orig_sc, typ, syn, kind, key, subset, vals)
            got = getattr(cfg, kind).get(key, ABSENT)
            ctx.mon('oracle:layer-order-multi')
            if got != exp:
                ctx.violation('wrong-layer', case, {'key': [kind, key], 'subset': list(subset), 'expected': exp, 'actual': got, 'where': 'Config.' + kind})
                continue
            ctx.mon('oracle:accessor-shows-effective-value')
            tbl = core.call(cfg.get, kind)
            via = tbl[1].get(key, ABSENT) if tbl[0] == 'ok' and isinstance(tbl[1], dict) else 'no table: %r' % (tbl[1],)
            if via != exp:
                ctx.violation('wrong-layer', case, {'key': [kind, key], 'subset': list(subset), 'expected': exp, 'actual': via, 'where': 'Config.get(%r)' % kind})
                continue
            want = exp
            if kind == 'snippets' and exp is ABSENT:
                want = key if typ == 'markup' else None
            elif kind == 'snippets' and typ == 'stylesheet':
                want = exp.split(':')[0]
            elif kind == 'snippets':
                want = re.match(r'[\w:-]+', exp).group(0)
            if kind == 'variables' and exp is ABSENT:
                want = None
            if want is not None and not (kind == 'options' and key == 'output.indent' and any(k[1] == 'inlineElements' for k in plan)):
                ru = core.call(observe_expand, typ, kind, key, u, g)
                if ru[0] == 'exc':
                    ctx.violation('expand-exception', case, {'key': [kind, key], 'exc': list(core.exc_site(ru[1]))})
                elif ru[1] is not None:
                    ctx.mon('oracle:expand-layer-multi')
                    if ru[1] != want:
                        ctx.violation('wrong-layer', case, {'key': [kind, key], 'expected': want, 'actual': ru[1], 'where': 'expand output'})
        if sum(1 for p in plan if sum(p[3]) >= 1) >= 2:
            ctx.seen(('multi', typ, syn, repr(case['plan'])))
    finally:
        if can_patch:
            C.SYNTAX_CONFIG = orig_sc
    ctx.mon('oracle:caller-digest')
    if caller_digest(u) != u0 or digest(g) != g0:
        ctx.violation('caller-dict-mutated', case, {'user': repr(u)[:300], 'global': repr(g)[:300]})


DEFAULT_SYN = {'markup': 'html', 'stylesheet': 'css'}


def run_shard(desc, ctx):
    import emmet.config as C
    from emmet.config import Config
    base_digest = digest(builtin_tables())
    can_patch = hasattr(C, 'SYNTAX_CONFIG')
    if not can_patch:
        ctx.notes['fallback'] = 'emmet.config.SYNTAX_CONFIG not found: only layers 3-5 varied'
    orig_sc = C.SYNTAX_CONFIG if can_patch else {}
    if desc.get('unknown'):
        for typ, plain in (('markup', 'html'), ('stylesheet', 'css')):
            # (the name of an abbreviation TYPE is not the name of a syntax either: the built-in section of that type holds type defaults, not syntax defaults)
            # ... nor is a syntax of the OTHER type (inline CSS in an XSL / Pug file, the document's syntax passed through)
            for unk in ('nosuch', 'my-syntax', 'stylesheet', 'markup', 'Html') + (('xsl', 'pug', 'jsx', 'html') if typ == 'stylesheet' else ('sass', 'stylus', 'css')):
                ctx.ev('unknown-syntax')
                ctx.mon('oracle:unknown-syntax')
                a = Config({'type': typ, 'syntax': unk})
                b = Config({'type': typ, 'syntax': plain})
                c = Config({'type': typ})
                for kind in ('options', 'snippets', 'variables'):
                    if digest(getattr(a, kind)) != digest(getattr(b, kind)) or digest(getattr(a, kind)) != digest(getattr(c, kind)):
                        ctx.violation('unknown-syntax', {'type': typ, 'syntax': unk, 'kind': kind}, {'note': 'differs from type defaults'})
                ctx.seen(('unk', typ, unk))
        # a layer whose table (or whole section) is None does not mention any key: the same as leaving it out; `type` / `syntax` None are absent too
        import emmet
        for typ, ab in (('markup', 'a>br'), ('stylesheet', 'p10+m0-a')):
            base = core.call(emmet.expand, ab, {'type': typ})
            g = {typ: {'options': {'output.indent': '  '}}}
            baseg = core.call(emmet.expand, ab, {'type': typ}, g)
            for u, gl, want in (({'type': typ, 'options': None}, None, base), ({'type': typ, 'snippets': None, 'variables': None}, None, base),
                                ({'type': typ}, {typ: None}, base), ({'type': typ}, {typ: {'options': None, 'snippets': None}}, base),
                                ({'type': typ, 'syntax': None}, None, base), ({'type': typ, 'syntax': None}, g, baseg), ({'type': typ, 'options': None}, g, baseg),
                                ({'type': typ}, dict(g, **{DEFAULT_SYN[typ]: None}), baseg)):
                ctx.ev('none-layer')
                ctx.mon('oracle:none-is-absent')
                r = core.call(emmet.expand, ab, u, gl) if gl is not None else core.call(emmet.expand, ab, u)
                if r[0] != want[0] or (r[0] == 'ok' and r[1] != want[1]):
                    ctx.violation('none-layer-not-absent', {'type': typ, 'abbr': ab, 'user': u, 'global': gl}, {'expected': repr(want[1])[:120], 'actual': repr(r[1])[:120]})
        r = core.call(emmet.expand, 'a', {'type': None})
        if r != core.call(emmet.expand, 'a', {}):
            ctx.violation('none-layer-not-absent', {'abbr': 'a', 'user': {'type': None}}, {'actual': repr(r[1])[:120]})
        for typ, ab, plain in (('markup', 'ul>li*2', 'html'), ('stylesheet', 'p10+m0-a', 'css'), ('markup', 'p+bd', 'html'), ('stylesheet', 'bd+p', 'css')):
            for unk in ('nosuch', 'stylesheet', 'markup') + (('xsl', 'pug', 'jsx') if typ == 'stylesheet' else ('sass', 'stylus')):
                ctx.ev('unknown-syntax')
                ra = core.call(emmet.expand, ab, {'type': typ, 'syntax': unk})
                rb = core.call(emmet.expand, ab, {'type': typ, 'syntax': plain})
                if ra[0] != rb[0] or (ra[0] == 'ok' and ra[1] != rb[1]):
                    ctx.violation('unknown-syntax', {'type': typ, 'syntax': unk, 'abbr': ab}, {'note': 'expand differs from type default syntax', 'unknown': repr(ra[1])[:120], 'default': repr(rb[1])[:120]})
        # a layer is in force for the calls that carry it and leaves no trace for the others: keys that NEST under built-in ones (a property whose
        # name extends a built-in property's, an alias used by built-in definitions) are defined in each of the three caller layers in turn, used,
        # and then a set of plain calls - typed keywords, fuzzy keys, aliases of aliases - must give what it gave before any layer was seen
        LEAK_PROBES = {'stylesheet': ['ov:an', 'td:fr', 'trs:al', 'ov', 'pos:s', 'bd1-s', 'm:a', 'p10', 'ovw', 'fw:b', 'td:n', 'ov:h', 'trs', 'c#f', 'posx'],
                       'markup': ['ul>li', 'a', '!', 'item', 'doc>p', 'ol+', 'btn:s', 'x-a>vv', 'link:css']}
        LEAK_LAYERS = {'stylesheet': {'ovw': 'overflow-wrap:anywhere|break-word|normal', 'tdx': 'text-decoration-x:frob|nicate', 'trsx': 'transition-x:alpha|beta',
                                      'posx': 'position-x:sieve|riddle', 'ov': 'overflow:auto|clip'},
                       'markup': {'item': 'li.item', 'meta:utf': 'meta[charset=koi8]', 'doc': 'html>body', 'vv': 'x-v.w', 'btn': 'button.b', 'link': 'link[rel=x]'}}
        for typ, syns in (('stylesheet', ['css', 'scss', 'sass', 'less', 'stylus']), ('markup', ['html', 'xml', 'pug', 'xsl', 'jsx'])):
            plain = {sy: [core.call(emmet.expand, ab, {'type': typ, 'syntax': sy}) for ab in LEAK_PROBES[typ]] for sy in syns}
            for where in ('call', 'global-type', 'global-syntax'):
                for sy in syns:
                    u, g = {'type': typ, 'syntax': sy}, {}
                    if where == 'call':
                        u['snippets'] = dict(LEAK_LAYERS[typ])
                    elif where == 'global-type':
                        g = {typ: {'snippets': dict(LEAK_LAYERS[typ])}}
                    else:
                        g = {sy: {'snippets': dict(LEAK_LAYERS[typ])}}
                    for key in list(LEAK_LAYERS[typ]) + LEAK_PROBES[typ]:
                        core.call(emmet.expand, key, u, g)
                    for sy2 in syns:
                        ctx.ev('layer-leaves-no-trace')
                        ctx.mon('oracle:layer-leaves-no-trace')
                        now = [core.call(emmet.expand, ab, {'type': typ, 'syntax': sy2}) for ab in LEAK_PROBES[typ]]
                        bad = [(ab, repr(a[1])[:80], repr(b[1])[:80]) for ab, a, b in zip(LEAK_PROBES[typ], plain[sy2], now) if a[0] != b[0] or (a[0] == 'ok' and a[1] != b[1])]
                        if bad:
                            ctx.violation('layer-left-a-trace', {'type': typ, 'layer': where, 'layer_syntax': sy, 'probe_syntax': sy2, 'leak': True},
                                          {'abbreviation, before, after': bad[:4]})
                            plain[sy2] = now
    else:
        typ, syn = desc['type'], desc['syntax']
        for kind, key, vals in KEYS[typ]:
            ref_cfg = None
            for subset in itertools.product((0, 1), repeat=5):
                if not can_patch and (subset[0] or subset[1]):
                    continue
                for form in forms_for(typ, syn)[1:]:
                    run_combo(ctx, C, typ, syn, kind, key, vals, subset, orig_sc, can_patch, form)
                cfg = run_combo(ctx, C, typ, syn, kind, key, vals, subset, orig_sc, can_patch)
                if cfg is None:
                    continue
                # bystanders: every other key of every kind equals the all-off resolution
                snap = {k: {kk: digest(vv) for kk, vv in getattr(cfg, k).items() if not (k == kind and kk == key)}
                        for k in ('options', 'snippets', 'variables')}
                if ref_cfg is None:
                    ref_cfg = snap
                else:
                    ctx.mon('oracle:bystanders')
                    if snap != ref_cfg:
                        diff = [(k, kk) for k in snap for kk in set(snap[k]) | set(ref_cfg[k]) if snap[k].get(kk) != ref_cfg[k].get(kk)]
                        ctx.violation('bystander-changed', {'type': typ, 'syntax': syn, 'kind': kind, 'key': key, 'subset': list(subset)},
                                      {'changed': diff[:5]})
                ctx.mon('oracle:builtin-digest')
                if digest(builtin_tables()) != base_digest:
                    ctx.violation('builtin-table-mutated', {'type': typ, 'syntax': syn, 'kind': kind, 'key': key, 'subset': list(subset)}, {})
                    base_digest = digest(builtin_tables())
        for _ in range(NMULTI[ctx.tier]):
            run_multi(ctx, C, typ, syn, ctx.rng, orig_sc, can_patch)
    ctx.mon('oracle:builtin-digest')
    if digest(builtin_tables()) != base_digest:
        ctx.violation('builtin-table-mutated', {'shard': desc}, {})


def replay(case, ctx):
    import emmet.config as C
    if case.get('multi'):
        import random
        # the plan is regenerated from the recorded layers: re-run the resolution and compare every planned key
        typ, syn = case['type'], case['syntax']
        orig_sc = C.SYNTAX_CONFIG
        sc = copy.deepcopy(orig_sc)
        vals_of = {(k, kk): v for k, kk, v in KEYS[typ]}
        for kind, key, subset in case['plan']:
            vals = vals_of[(kind, key)]
            if subset[0]:
                sc.setdefault(typ, {})
                sc[typ][kind] = dict(sc[typ].get(kind, {}))
                sc[typ][kind][key] = vals[0]
            if subset[1]:
                sc.setdefault(syn, {})
                sc[syn][kind] = dict(sc[syn].get(kind, {}))
                sc[syn][kind][key] = vals[1]
        C.SYNTAX_CONFIG = sc
        try:
            from emmet.config import Config
            cfg = Config(copy.deepcopy(case['user']), copy.deepcopy(case['global']))
            ctx.ev('replay')
            for kind, key, subset in case['plan']:
                exp = expected_value(C, orig_sc, typ, syn, kind, key, tuple(subset), vals_of[(kind, key)])
                got = getattr(cfg, kind).get(key, ABSENT)
                if got != exp:
                    ctx.violation('wrong-layer', case, {'key': [kind, key], 'expected': exp, 'actual': got})
        finally:
            C.SYNTAX_CONFIG = orig_sc
        return
    if 'subset' not in case:
        run_shard({'unknown': True}, ctx)
        return
    vals = [v for k, kk, v in KEYS[case['type']] if (k, kk) == (case['kind'], case['key'])][0]
    base = digest(builtin_tables())
    run_combo(ctx, C, case['type'], case['syntax'], case['kind'], case['key'], vals, tuple(case['subset']),
              C.SYNTAX_CONFIG, True, case.get('form', 'explicit'), case.get('call_extra'))
    if digest(builtin_tables()) != base:
        ctx.violation('builtin-table-mutated', case, {})


CLASSIFIERS = {}
