"""C10 - CSS matcher returns the innermost rule or declaration with exact ranges.

Refuting events: for a generated stylesheet and a position, css_matcher.match /
balanced_outward / balanced_inward differ from the generator's record."""
from .. import core, forms, gen_css, probes

ID = 'C10'
RULE = ('cases = (generated stylesheet, position); stylesheets from random trees of nested rules and ;-terminated declarations with decoys '
        '(comments, strings, parenthesised expressions containing { } : ;, pseudo-selectors, at-rules, attribute selectors, top-level $var / --custom '
        'declarations, several top-level rules), every position 0..len, three functions. Domain D2 (separate documents) adds ; inside unquoted '
        'parentheses. Non-trivial = the position lies strictly inside a rule or declaration; distinct by (stylesheet, position)')
ASSUMPTIONS = ['generator bookkeeping is self-checked (recorded delimiters slice to { } : ;)',
               'a declaration spans name..";"+1 with the value as body; an empty value may be any empty range between colon and semicolon',
               'balanced_outward: value, declaration, then content range and full range of each enclosing rule; empty ranges and consecutive duplicates dropped',
               'balanced_inward boundary convention left open as in C09',
               'a comment never stands between a selector and its brace without a blank (the selector range then ends at the comment)']
FLOORS = {'quick': {'position': 30000, 'document': 250, 'position:d2': 3000}, 'thorough': {'position': 2000000, 'document': 15000, 'position:d2': 150000}}
REQUIRED_MONITORS = ['oracle:match', 'oracle:outward', 'oracle:inward', 'oracle:retained']
NDOCS = {'quick': 45, 'thorough': 1300}


def describe(tier):
    return {'exhaustive': False, 'bounds': {'documents_per_shard': NDOCS[tier], 'max_depth': 3, 'max_items': 3, 'top_level_rules': '1-3', 'positions': 'every position 0..len'}}


def shards(tier, seed):
    n = 8 if tier == 'quick' else 16
    return [{'ndocs': NDOCS[tier], 'part': p} for p in range(n)]


def to_json(recs):
    idx = {id(r): i for i, r in enumerate(recs)}
    out = []
    for r in recs:
        d = {k: v for k, v in r.items() if k not in ('children', 'items', 'parent')}
        d['parent'] = idx[id(r['parent'])] if r['parent'] is not None else None
        d['tr'] = [list(x) for x in r.get('tr', [])]
        out.append(d)
    return out


def from_json(lst):
    recs = [dict(d, children=[], items=[]) for d in lst]
    for r in recs:
        r['tr'] = [tuple(x) for x in r.get('tr', [])]
        r['parent'] = recs[r['parent']] if r['parent'] is not None else None
        if r['parent'] is not None:
            r['parent']['children'].append(r)
            r['parent']['items'].append(r)
    return recs


def push(lst, r):
    if r and r[0] != r[1] and (not lst or lst[-1] != r):
        lst.append(r)


def region(src, c, pos):
    if c['type'] == 'rule':
        if pos <= c['sel_end']:
            return 'selector'
        if pos <= c['brace']:
            return 'before-brace'
        return 'rule-body-gap'
    if pos <= c['name_end']:
        return 'name'
    if c['vs'] is None or pos < c['vs']:
        return 'colon-gap'
    if pos < c['ve']:
        return 'value'
    if pos == c['ve']:
        return 'value-end'
    return 'before-semicolon'


def expected_full(src, r):
    "the [full, inner] pair balanced_* report for one record"
    out = []
    if r['type'] == 'rule':
        push(out, (r['start'], r['end']))
        push(out, gen_css.inner_range(src, r['brace'] + 1, r['close']))
    else:
        push(out, (r['start'], r['end']))
        if r['vs'] is not None:
            push(out, (r['vs'], r['ve']))
    return out


OFFSET_KEYS = ('start', 'sel_end', 'brace', 'close', 'end', 'name_end', 'colon', 'vs', 've', 'semi')


def with_statement(src, recs, rng):
    """the same sheet with one value-less statement (`@include zz;`) put in as the FIRST item of a rule that has items.  Every recorded offset behind it
    moves; the statement itself is recorded the way the matcher treats such a name: a first child by its name range, without a value (positions inside
    it are not judged: match() and balanced_outward() look through it)"""
    rules = [r for r in recs if r['type'] == 'rule' and r['items']]
    if not rules:
        return None
    target = rng.choice(rules)
    at = target['brace'] + 1
    stmt = rng.choice(['@include zz', '@extend %y', '.mixin()', '@include m($a, 1px)', '@include m((a: 1), $b: 2)', '.mix(f(1), @c: 2)'])     # (colons at depth 1 after an inner pair has closed)
    ins = rng.choice([' ', '\n  ']) + stmt + ';'
    L = len(ins)
    js = to_json(recs)
    ti = [i for i, r in enumerate(recs) if r is target][0]
    for d in js:
        for k in OFFSET_KEYS:
            if isinstance(d.get(k), int) and d[k] >= at:
                d[k] += L
        d['tr'] = [[a + L if a >= at else a, b + L if b >= at else b] for a, b in d.get('tr', [])]
    s0 = at + len(ins) - len(stmt) - 1
    js.append({'type': 'decl', 'start': s0, 'name_end': s0 + len(stmt), 'colon': None, 'vs': None, 've': None, 'semi': s0 + len(stmt), 'end': s0 + len(stmt),
               'parent': ti, 'toks': [], 'tr': [], 'sip': False, 'statement': True})
    new = from_json(js)
    st = new[-1]
    par = new[ti]
    par['items'].remove(st)
    par['items'].insert(0, st)
    return src[:at] + ins + src[at:], new, (at, at + L)


def snap_match(m):
    return (m.type, m.start, m.end, m.body_start, m.body_end)


def snap_ranges(lst):
    return [tuple(x) for x in lst]


HELD = core.Retained(every=7)
FORM = [0]
OTHER_SHEET = '@media (min-width: 10px) { .a:hover { color: red; b: url("x;y") } /* } */ c { d: e } }\n$v: 1px;'


def check_doc(src, recs, ctx, cm, positions=None, d2=False, retained=False):
    ctx.ev('document')
    FORM[0] += 1
    arg = forms.MarkupLike(src) if FORM[0] % 5 == 1 else (forms.Shown(src) if FORM[0] % 5 == 3 else src)
    if arg is not src:
        ctx.ev('document:' + type(arg).__name__)
    docase = {'src': src, 'truth': to_json(recs), 'd2': d2}
    n = len(src)
    tops = [r for r in recs if r['parent'] is None and r['type'] == 'rule']
    for pos in (positions if positions is not None else range(n + 1)):
        ctx.ev('position:d2' if d2 else 'position')
        cands = [r for r in recs if r['start'] < pos < r['end']]
        cands.sort(key=lambda r: r['end'] - r['start'])
        case = dict(docase, pos=pos)
        feats = {'after_first_top_rule': bool(tops) and pos >= tops[0]['end'],
                 'region': region(src, cands[0], pos) if cands else 'outside',
                 'innermost': cands[0]['type'] if cands else None,
                 'sip': any(r.get('sip') for r in recs)}
        case['features'] = feats
        if cands:
            ctx.seen((src, pos))
            ctx.state('region', '%s/%s%s' % (feats['innermost'], feats['region'], '/after-first-top' if feats['after_first_top_rule'] else ''))
        else:
            ctx.state('region', 'outside' + ('/after-first-top' if feats['after_first_top_rule'] else ''))
        exp = cands[0] if cands else None
        # ---- match
        ctx.mon('oracle:match')
        r = core.call(cm.match, arg, pos)
        if r[0] == 'exc':
            ctx.violation('exception', dict(case, fn='match'), {'exc': list(core.exc_site(r[1]))})
        else:
            m = r[1]
            HELD.keep(m, snap_match, case, 'match')
            a = (m.type, m.start, m.end, m.body_start, m.body_end) if m else None
            if exp is None:
                ok = a is None
                e = None
            elif exp['type'] == 'rule':
                e = ('selector', exp['start'], exp['end'], exp['brace'] + 1, exp['close'])
                ok = a == e
            else:
                e = ('property', exp['start'], exp['end'], exp['vs'], exp['ve'])
                if exp['vs'] is None:
                    ok = a is not None and a[:3] == e[:3] and a[3] == a[4] and exp['colon'] < a[3] <= exp['semi']
                else:
                    ok = a == e
            if not ok:
                ctx.violation('match-mismatch', case, {'expected': e, 'actual': a})
            elif m is not None and len(ctx.samples) < 2 and len(cands) >= 3:
                ctx.sample({'stylesheet': src[:300], 'pos': pos, 'match': m.to_json()})
        # ---- the same calls made from inside a scanner callback on ANOTHER stylesheet: the answers are those of the plain calls
        if pos % 11 == 3 and r[0] == 'ok':
            ctx.mon('oracle:match-reentrant')
            got = []

            def cb(*a, got=got):
                if not got:
                    got.append(core.call(cm.match, arg, pos))
                    got.append(core.call(cm.balanced_inward, arg, pos))
            outer, plain_outer = [], []
            core.call(cm.scan, OTHER_SHEET, lambda *a: (outer.append(tuple(a)), cb(*a))[0])
            core.call(cm.scan, OTHER_SHEET, lambda *a: plain_outer.append(tuple(a)))
            pi = core.call(cm.balanced_inward, arg, pos)
            if len(got) != 2 or got[0][0] != 'ok' or (got[0][1] and snap_match(got[0][1])) != (r[1] and snap_match(r[1])) \
                    or got[1][0] != pi[0] or (pi[0] == 'ok' and snap_ranges(got[1][1]) != snap_ranges(pi[1])) or outer != plain_outer:
                ctx.violation('reentrant-call-differs', dict(case, fn='match/balanced_inward inside a scan callback'),
                              {'plain': r[1] and snap_match(r[1]), 'inside_callback': repr([g[0] for g in got]), 'outer_tokens_changed': outer != plain_outer})
        # ---- outward
        ctx.mon('oracle:outward')
        r = core.call(cm.balanced_outward, arg, pos)
        if r[0] == 'exc':
            ctx.violation('exception', dict(case, fn='balanced_outward'), {'exc': list(core.exc_site(r[1]))})
        else:
            eo = []
            for c in cands:
                if c['type'] == 'decl':
                    if c['vs'] is not None:
                        push(eo, (c['vs'], c['ve']))
                    push(eo, (c['start'], c['end']))
                else:
                    push(eo, gen_css.inner_range(src, c['brace'] + 1, c['close']))
                    push(eo, (c['start'], c['end']))
            ao = [tuple(x) for x in r[1]]
            HELD.keep(r[1], snap_ranges, case, 'balanced_outward')
            if ao != eo:
                ctx.violation('outward-mismatch', case, {'expected': eo[:8], 'actual': ao[:8]})
        # ---- inward
        ctx.mon('oracle:inward')
        r = core.call(cm.balanced_inward, arg, pos)
        if r[0] == 'exc':
            ctx.violation('exception', dict(case, fn='balanced_inward'), {'exc': list(core.exc_site(r[1]))})
            continue
        ai = [tuple(x) for x in r[1]]
        HELD.keep(r[1], snap_ranges, case, 'balanced_inward')
        why = None
        if cands and not ai:
            why = 'empty although the position is strictly inside a rule or declaration'
        elif ai:
            firsts = [x for x in recs if (x['start'], x['end']) == ai[0]]
            f = firsts[0] if firsts else None
            if f is None:
                why = 'first entry is not a recorded rule or declaration'
            elif not (f['start'] <= pos <= f['end']):
                why = 'first entry does not touch the position'
            elif any(c is not f and c['start'] < pos < c['end'] and f['start'] <= c['start'] and c['end'] <= f['end'] for c in recs):
                why = 'a recorded descendant of the first entry strictly contains the position'
            else:
                chain = []
                cur = f
                while True:
                    for x in expected_full(src, cur):
                        push(chain, x)
                    if cur['type'] != 'rule' or not cur['items']:
                        break
                    cur = cur['items'][0]
                if chain != ai:
                    why = 'not the first-child chain: expected %r' % (chain[:8],)
        if why:
            ctx.violation('inward-mismatch', case, {'why': why, 'actual': ai[:8]})
    if len(HELD.items) > 150 or retained:
        # results kept by the caller are read again after the calls on this stylesheet (and on the ones before it)
        HELD.verify(ctx)


def run_shard(desc, ctx):
    from emmet import css_matcher as cm
    rng = ctx.rng
    pr = probes.Probes().add('emmet.css_matcher:alloc_range').add('emmet.css_matcher:release_range').add('emmet.css_matcher:inner_range') \
        .add('emmet.css_matcher.scan:is_known_selector_colon').install()
    try:
        for k in range(desc['ndocs']):
            d2 = (k % 8 == 7)
            if k % 6 == 5:
                # deep and narrow: pooled-object and stack thresholds lie beyond depth 4
                src, recs = gen_css.gen_sheet(rng, max_top=1, max_depth=rng.randint(5, 9), max_items=2, p_sip=0.0)
                d2 = False
                ctx.ev('document:deep')
            else:
                src, recs = gen_css.gen_sheet(rng, p_sip=0.5 if d2 else 0.0, allow_nosemi=(k % 2 == 0))
            if len(src) > 900:
                continue
            check_doc(src, recs, ctx, cm, d2=d2)
            if k % 5 == 1 and not d2:
                ws = with_statement(src, recs, rng)
                if ws is not None and len(ws[0]) <= 700:
                    ctx.ev('document:with-statement')
                    lo, hi = ws[2]
                    check_doc(ws[0], ws[1], ctx, cm, positions=[q for q in range(len(ws[0]) + 1) if not (lo <= q <= hi)])
        HELD.verify(ctx)
    finally:
        pr.uninstall()
    for k, v in pr.reach().items():
        ctx.mon('reach:' + k, v)


def replay(case, ctx):
    from emmet import css_matcher as cm
    recs = from_json(case['truth'])
    gen_css.self_check(case['src'], recs)
    check_doc(case['src'], recs, ctx, cm, positions=None if case.get('retained') else [case['pos']], d2=case.get('d2', False), retained=True)


# ---- known findings (mechanism classifiers; active only while listed as open) -------
def _sip(rec):
    """`;` (or `}`) inside an unquoted parenthesised expression terminates the declaration.
    Only documents of domain D2 (built with such a value) can be explained, and only when the
    wrong result has the mechanism's shape: the position lies inside the affected declaration D
    (its range is cut at the inner `;`), or - for balanced_inward - the position touches an
    ancestor rule whose first-child chain runs through D."""
    case = rec['case']
    if not case.get('d2') or rec['kind'] not in ('match-mismatch', 'outward-mismatch', 'inward-mismatch'):
        return False
    truth = case['truth']
    pos = case['pos']
    for i, d in enumerate(truth):
        if not d.get('sip'):
            continue
        if d['start'] <= pos <= d['end']:
            return True
        if rec['kind'] == 'inward-mismatch':
            # walk up while the record is the first item of its parent
            cur = i
            while truth[cur]['parent'] is not None:
                par = truth[cur]['parent']
                first = min(j for j, x in enumerate(truth) if x['parent'] == par)
                if first != cur:
                    break
                cur = par
                if truth[cur]['start'] <= pos <= truth[cur]['end']:
                    return True
    return False


CLASSIFIERS = {'C10-semicolon-inside-parentheses': _sip}
