"""C11 - extract finds exactly the abbreviation that ends at the caret.

Refuting events: an extract() result whose fields are inconsistent with the line (slice,
bounds, dangling leading operator, prefix, look-ahead); or - on domain D1 - a valid
abbreviation embedded after a documented left context that is not returned exactly."""
import re

from .. import core, forms, enum, gen_abbr, probes

ID = 'C11'
RULE = ('consistency: every line up to the bound over the 16-symbol alphabet "a*^ >+[]{}()\\"=</" x every position -1..len+1 x 7 option sets, plus random '
        'lines <= 60; round trip: generated valid abbreviation A embedded as left + [prefix] + A + right with left in {empty, blanks, text+blank, complete '
        'open / close / self-closed tag with quoted, unquoted, boolean attributes} and right in {empty, " text", "</div>", and with look-ahead off a closing '
        'bracket or quote}; markup and stylesheet type; domain D1 must be exact, domain D2 is built to contain one of the two recorded heuristic patterns. '
        'Non-trivial = extract returned a result / A has an operator or bracket; distinct by (line, position, options)')
ASSUMPTIONS = ['tag names of the left context in D1 consist of letters, digits, `:` and `-` (names with `.` or `_` are the third recorded heuristic, D2/F3)',
               'D1 = lines in which no ">" operator of A (outside [] and {}) is preceded by a blank-, quote-free run containing "=", and no quoted attribute value contains a bracket character other than round brackets that pair up inside the value',
               'A uses ASCII names, balanced brackets inside [...], balanced (possibly nested) braces inside {...}; stylesheet A has no commas, blanks, quotes or ${...} (function arguments cannot be extracted by design)',
               'an empty abbreviation (line of operators only) is a consistent result',
               'prefixes used in round trips do not occur inside A, and no prefix is used when the left context contains brackets or braces (the statement promises the exact round trip without a prefix only)']
ALPHA = ['a', '*', '^', ' ', '>', '+', '[', ']', '{', '}', '(', ')', '"', '=', '<', '/']
OPTION_SETS = [None, {'lookAhead': False}, {'type': 'stylesheet'}, {'prefix': '<'}, {'prefix': 'a>'}, {'type': 'stylesheet', 'lookAhead': False},
               {'prefix': '<', 'lookAhead': False}]
BOUNDS = {'quick': {'maxlen': 4, 'random': 1500, 'roundtrip': 1500}, 'thorough': {'maxlen': 5, 'random': 30000, 'roundtrip': 26000}}
FLOORS = {'quick': {'consistency:enum': 2500000, 'consistency:random': 100000, 'roundtrip:d1': 9000, 'roundtrip:d2': 2500, 'roundtrip:stylesheet': 2500},
          'thorough': {'consistency:enum': 50000000, 'consistency:random': 3000000, 'roundtrip:d1': 220000, 'roundtrip:d2': 60000, 'roundtrip:stylesheet': 60000}}
REQUIRED_MONITORS = ['oracle:consistency', 'oracle:roundtrip-d1', 'oracle:roundtrip-d2']


FORM = [0]


def describe(tier):
    b = BOUNDS[tier]
    return {'exhaustive': True, 'bounds': {'consistency_line_max_len': b['maxlen'], 'alphabet': ''.join(ALPHA), 'option_sets': OPTION_SETS,
                                           'note': 'consistency enumeration complete up to the bound; round trips are samples'}}


def shards(tier, seed):
    n = 12 if tier == 'quick' else 16
    b = BOUNDS[tier]
    return [dict(b, part=p, nparts=n) for p in range(n)]


CLOSERS = {'markup': ')]}', 'stylesheet': ')'}


def consistent(line, pos, opt, r):
    "None or the reason why result r is inconsistent with the line"
    n = len(line)
    fields = (r.abbreviation, r.location, r.start, r.end)
    if not isinstance(r.abbreviation, str) or not all(isinstance(x, int) for x in fields[1:]):
        return 'field types %r' % (fields,)
    if not (0 <= r.start <= r.location <= r.end <= n):
        return 'bounds: start=%d location=%d end=%d len=%d' % (r.start, r.location, r.end, n)
    if line[r.location:r.end] != r.abbreviation:
        return 'abbreviation %r is not line[location:end] = %r' % (r.abbreviation, line[r.location:r.end])
    if r.abbreviation[:1] in ('>', '+', '^', '*') and r.abbreviation[:1]:
        return 'abbreviation begins with a dangling operator: %r' % r.abbreviation
    o = opt or {}
    prefix = o.get('prefix', '')
    if prefix:
        if line[r.start:r.start + len(prefix)] != prefix:
            return 'prefix %r not found at start=%d' % (prefix, r.start)
        if r.start + len(prefix) > r.location:
            return 'abbreviation (location %d) overlaps the prefix at %d' % (r.location, r.start)
    p = n if pos is None else min(n, max(0, pos))
    typ = o.get('type', 'markup')
    if o.get('lookAhead', True) is False:
        if r.end != p:
            return 'look-ahead off but end=%d != position %d' % (r.end, p)
    else:
        if r.end < p:
            return 'end=%d before the position %d' % (r.end, p)
        tail = line[p:r.end]
        if not re.fullmatch('["\']?[%s]*' % re.escape(CLOSERS[typ]), tail):
            return 'look-ahead moved the end across %r' % tail
    return None


class Mon:
    def __init__(self, ctx):
        import emmet
        self.ctx = ctx
        self.extract = emmet.extract
        self.n_results = 0

    def consistency(self, line, pos, opt, cls):
        ctx = self.ctx
        ctx.ev(cls)
        ctx.mon('oracle:consistency')
        FORM[0] += 1
        if FORM[0] % 9 == 0:
            # the same arguments in another legal form: the line as a str subclass that shows something else, the options as another Mapping
            self.ctx.mon('form:line-and-options')
            r = core.call(self.extract, forms.Shown(line), pos, forms.mapping_form(opt, FORM[0] // 9)) if opt is not None else core.call(self.extract, forms.Shown(line), pos)
        else:
            r = core.call(self.extract, line, pos, opt) if opt is not None else core.call(self.extract, line, pos)
        case = {'check': 'consistency', 'line': line, 'pos': pos, 'options': opt}
        if r[0] == 'exc':
            ctx.violation('exception', case, {'exc': list(core.exc_site(r[1])), 'msg': str(r[1])[:100]})
            return
        res = r[1]
        if res is None:
            return
        why = consistent(line, pos, opt, res)
        if why:
            ctx.violation('inconsistent-result', case, {'why': why, 'result': repr(res)})
            return
        if self.n_results % 97 == 0:
            # "None or a result": the two can be told apart the way callers do it (==, !=, `in`), and a result equals a second extraction of the same line
            ctx.mon('oracle:result-distinguishable-from-none')
            again = self.extract(line, pos, opt) if opt is not None else self.extract(line, pos)
            t = core.call(lambda: (res == None, res != None, res in (None, 0, 'x'), res == again))      # noqa: E711
            if t[0] == 'exc' or t[1] != (False, True, False, True):
                ctx.violation('result-not-comparable', case, {'outcome': repr(t[1])[:120]})
                return
        self.n_results += 1
        ctx.seen((line, pos, repr(opt)))
        if len(ctx.samples) < 2 and len(line) > 12 and res.end > (pos or 0) and res.abbreviation:
            ctx.sample({'line': line, 'pos': pos, 'options': opt, 'result': repr(res)})

    def roundtrip(self, left, prefix, A, right, opt, domain, pattern, cls):
        ctx = self.ctx
        ctx.ev(cls)
        ctx.mon('oracle:roundtrip-d2' if domain == 'd2' else 'oracle:roundtrip-d1')
        line = left + prefix + A + right
        pos = len(left) + len(prefix) + len(A)
        o = dict(opt or {})
        if prefix:
            o['prefix'] = prefix
        case = {'check': 'roundtrip', 'line': line, 'pos': pos, 'options': o, 'A': A, 'left': left, 'prefix': prefix, 'domain': domain, 'pattern': pattern}
        FORM[0] += 1
        r = core.call(self.extract, forms.Shown(line), pos, forms.mapping_form(o, FORM[0] // 9)) if FORM[0] % 9 == 0 else core.call(self.extract, line, pos, o)
        if r[0] == 'exc':
            ctx.violation('exception', case, {'exc': list(core.exc_site(r[1])), 'msg': str(r[1])[:100]})
            return
        res = r[1]
        if res is not None:
            why = consistent(line, pos, o, res)
            if why:
                ctx.violation('inconsistent-result', case, {'why': why, 'result': repr(res)})
                return
        want = (A, len(left) + len(prefix), len(left), pos)
        got = (res.abbreviation, res.location, res.start, res.end) if res is not None else None
        if got != want:
            ctx.violation('roundtrip-not-exact', case, {'expected': list(want), 'actual': list(got) if got else None})
            return
        if re.search(r'[>+^(\[{*]', A):
            ctx.seen((line, pos, repr(o)))
        ctx.state('context', '%s|%s|%s' % ('tag' if left.endswith('>') else 'text' if left.strip() else 'blank' if left else 'sol',
                                           'prefix' if prefix else '-', right[:2]))


# ----------------------------------------------------------------------- generators
NAMES = ['div', 'a', 'ul', 'li', 'x-y', 'ns:t', 'p', 'h1', 'span', 'Foo']


def rand_text(rng, depth=0):
    "text-node content: anything but unbalanced braces - brackets, operators and nested {...} pairs in any order"
    s = ''
    for _ in range(rng.randint(1, 6)):
        k = rng.random()
        if k < 0.3:
            s += rng.choice(['a', 'call', 'x y', ' ', 'n1', '$', '${1}', '${2:d}'])
        elif k < 0.6:
            s += rng.choice('[]()[]()<>+=.,;:*^#!/')
        elif depth < 3:
            s += '{' + rand_text(rng, depth + 1) + '}'
    return s


def rand_elem(rng, d2_pattern=None):
    s = rng.choice(NAMES + [''])
    for _ in range(rng.randint(0, 2)):
        k = rng.random()
        if k < 0.3:
            s += '.' + rng.choice(['c', 'c-d', 'c_e', 'c$', 'c$$@-3', 'c\u0663', 'c$@\uff13', 'C9'])
        elif k < 0.4:
            s += '#i' + rng.choice(['', '1', '$'])
        elif k < 0.6:
            s += '[%s="%s"]' % (rng.choice(['t', 'data-a']), rng.choice(['x y', '', 'a>b', "it's", '$#', 'a=b', '<b>', 'a+b', 'x.y', "alert('hi')", 'color:rgb(0, 0, 0)', 'save(item, $event)',
                                                                                  'Name (optional)', 'f(g(1, 2), 3) !', 'go(); stop()', 'x (\u00e9)']))
        elif k < 0.7:
            s += '[%s]' % rng.choice(['a b', 'k', 'a.', '!b', 'x y z'])
        elif k < 0.85:
            # unquoted values: the ones with "=" are legal here because no operator ">" follows inside the same run unless D2 asks for it
            s += '[%s %s]' % (rng.choice(['k', 'a b']), rng.choice(['q', 'r s']))
        else:
            s += '[%s={%s}]' % (rng.choice(['e', 'on']), rng.choice(['x', 'f(1)', 'a.b']))
    if not s:
        s = '.c'
    if rng.random() < 0.12:
        s += '{%s}' % rand_text(rng)
    elif rng.random() < 0.2:
        s += '{%s}' % rng.choice(['text', 'a b', 'x>y', 'a]b', '(x', '$#', 'q=r', "it's", '[1]', 'a<b', 'Hello ${1}', 'a {b} c', 'item ${1:name} x',
                                  '{x}', 'x {y {z}} w', 'f, ${2:g}, h', '${0}'])
    if rng.random() < 0.2:
        s += '*%s' % rng.choice(['2', '3', '10', '', '\u0663', '\uff11\uff12', '\u0967'])      # any decimal digit counts as a number (str.isdecimal)
    return s


def rand_abbr(rng, depth=0):
    s = rand_elem(rng)
    for _ in range(rng.randint(0, 3) if rng.random() < 0.9 or depth else rng.randint(8, 20)):
        op = rng.choice(['>', '+', '^', '>', '>'])
        if rng.random() < 0.2 and depth < 2:
            s += op.replace('^', '+') + '(' + rand_abbr(rng, depth + 1) + ')' + rng.choice(['', '*2'])
        else:
            s += op + rand_elem(rng)
    return s


def d1_ok(line, a_start, a_end):
    "no '>' operator of A (outside [] and {}) is preceded by a blank/quote-free run containing '='; no bracket inside a quoted value of A"
    stack = []
    for i in range(a_start, a_end):
        c = line[i]
        if stack and stack[-1] == '{':
            # inside text only braces count
            if c == '{':
                stack.append('{')
            elif c == '}':
                stack.pop()
            continue
        if c in '[{':
            stack.append(c)
        elif c in ']}':
            if stack:
                stack.pop()
        elif c == '>' and not stack:
            j = i
            while j > 0 and line[j - 1] not in ' \t"\'':
                j -= 1
            if '=' in line[j:i]:
                return False
    A = line[a_start:a_end]
    for m in re.finditer(r'"([^"]*)"|\'([^\']*)\'', A):
        v = m.group(0)[1:-1]
        if re.search(r'[\[\]{}]', v):
            return False
        # round brackets that pair up inside the value (a call, a remark in parentheses) are ordinary content
        depth = 0
        for ch in v:
            depth += (ch == '(') - (ch == ')')
            if depth < 0:
                return False
        if depth:
            return False
    return True


LEFTS = ['', ' ', '\t', 'foo ', 'foo: ', 'x=a.b ', 'width=100% ', 'a=1 b=2\t', 'some text ', 'lorem ipsum dolor sit amet, consectetur adipiscing elit, sed do ' * 3, '<div class="a b c d e f" id="x" data-k="v w" hidden>', '<div>', '<div class="x">', '</p>', '<br/>', '<input disabled>', 'text <b>', "<a title='q r'>",
         '<ul id="a" data-b="c d">', '<DIV CLASS="X Y">', '</P>', '<BR/>', '<Input Disabled>', '<svg:G a:b="c">', '<a\thref="x"\n>', '<p title=\'\'>', '<a b="1"c="2">', '<x-1y>', '<img alt="it\'s" />', '<input value="it\'s" disabled>', "<a onclick='go(\"x\")' b>", '<p title="a\'b\'c" q=1 r>', '<a href="C:\\docs\\" download>',
         '<div class = "a">', '<a href= "x" b>', '<a href ="x">', '<p a = "b" c>', '<a\tb\t=\t"c">', "<a b = 'c' d = 'e'>", '<div a = b>', '<div a= b c>', '<img alt = "">', '<a href=/foo/bar>', '<img src=a/b.png>', '<a href=/x>', '<a href=/x class=y>', '<link href=//cdn.x/y.css>', '<img src="..\\img\\"/>', '<p title="\\" hidden>', "<q a='\\' b>", '<a b="x\\"y" c>', '<div className={styles.box}>', '<button onclick=go()>', '<li v-if=items[0]>', '<a b={x} c=(y)>', '<p a=f(g(1))>', '<q k=[1][2] />', '<img src="a.png" />', '<p hidden>', '</h1>', '<h2 class="x">', '<x1>', '<col-2 a1>', '</ns:t2>']
LEFTS_D2 = ['<a href=x>', '<div class=y id=z>', '<img src=a.png alt=b>']
LEFTS_F3 = ['<x-1.y>', '<Foo.Bar>', '<x_y>', '</a.b>', '<my_tag k="v">', '<A.B />']       # tag names with `.` or `_`
RIGHTS = ['', ' foo', '</div>', '\n']
RIGHTS_NOLOOK = [']', ')', '}', '"', "'", ')]']
CSS_A = ['p10', 'm10-20', 'bd1-s#f.5', 'c#fc0', 'p10+m20!', 'fz1.5e', '@kf', 'trf:r', 'd:ib', '$var10', 'w100%', 'lh1.5', 'm-10--20', 'pos:a+t0+l0',
         'bgc#f+c#0', 'ov:h!', 'fl:l', 'p10p20p', '(p10)', 'm(1)', 'm\uff11\uff10', 'p\u0663-\u0664', 'w\u0967e', 'P10', 'M-A']


def run_shard(desc, ctx):
    mon = Mon(ctx)
    pr = probes.Probes().add('emmet.extract_abbreviation.is_html:is_html').add('emmet.extract_abbreviation:offset_past_auto_closed') \
        .add('emmet.extract_abbreviation:get_start_offset').add('emmet.extract_abbreviation.is_html:consume_attribute_with_unquoted_value').install()
    try:
        for line in enum.strings(ALPHA, desc['maxlen'], desc['part'], desc['nparts']):
            for pos in range(-1, len(line) + 2):
                for opt in OPTION_SETS:
                    mon.consistency(line, pos, opt, 'consistency:enum')
        rng = ctx.rng
        pool = ALPHA + ['div', 'li', '.c', '#i', '$', "'", '\\', 'é', ':', '-', '1', '!', '@', 'title=', '"x y"', '<a ', '</p>', ' ', '\t']
        for _ in range(desc['random']):
            line = ''.join(rng.choice(pool) for _ in range(rng.randint(3, 24)))[:60]
            for pos in (None, rng.randint(0, len(line)), rng.randint(0, len(line)), len(line)):
                for opt in (rng.choice(OPTION_SETS), rng.choice(OPTION_SETS)):
                    mon.consistency(line, pos, opt, 'consistency:random')
        for i in range(desc['roundtrip']):
            A = rand_abbr(rng)
            for _ in range(3):
                left = rng.choice(LEFTS)
                prefix = rng.choice(['', '', '', '<', '%%', 'emm;'])
                if prefix and (prefix in A or any(c in left for c in '[]{}')):
                    # documented assumptions: the prefix does not occur inside A ("nearest prefix" is the contract), and the search for it skips
                    # [..] / {..} pairs without regard to nesting, so a lone bracket in a text of A may pair with one in the left context
                    prefix = ''
                look = rng.random() < 0.7
                right = rng.choice(RIGHTS if look else RIGHTS + RIGHTS_NOLOOK)
                opt = {} if look else {'lookAhead': False}
                line = left + prefix + A + right
                if d1_ok(line, len(left) + len(prefix), len(left) + len(prefix) + len(A)):
                    mon.roundtrip(left, prefix, A, right, opt, 'd1', None, 'roundtrip:d1')
            # ---- D2: built to contain one of the two recorded patterns
            if i % 3 == 0:
                if rng.random() < 0.5:
                    # F1: an operator ">" preceded by ident=run (in A itself or starting in the left context)
                    if rng.random() < 0.5:
                        A2 = rng.choice(['li', 'ul>li', 'x-y']) + '[%s=%s]' % (rng.choice(['title', 'k']), rng.choice(['x', 'a-b', '1'])) + \
                            rng.choice(['', '*3', '.c']) + '>' + rng.choice(['a', 'p.c', 'b+i'])
                        left = rng.choice(LEFTS)
                    else:
                        A2 = rng.choice(['li.c>p', 'a>b', 'ul>li*2>a'])
                        left = rng.choice(LEFTS_D2)
                    mon.roundtrip(left, '', A2, rng.choice(RIGHTS), {}, 'd2', 'F1', 'roundtrip:d2')
                else:
                    A2 = rng.choice(['a', 'ul>li', 'p.c']) + '[title="%s"]' % rng.choice([']', 'a]b', '(', '{x', 'f(', '}']) + rng.choice(['', '>b', '*2'])
                    mon.roundtrip(rng.choice(LEFTS), '', A2, rng.choice(RIGHTS), {}, 'd2', 'F2', 'roundtrip:d2')
            if i % 9 == 2:
                # F3: the left context is a complete tag whose NAME contains `.` or `_` (JSX member components, custom elements)
                A2 = rng.choice(['a>b', 'ul>li*2', 'p.c', 'div#i>span{t}'])
                mon.roundtrip(rng.choice(LEFTS_F3), '', A2, rng.choice(RIGHTS), {}, 'd2', 'F3', 'roundtrip:d2')
            # ---- stylesheet
            if i % 3 == 1:
                A3 = rng.choice(CSS_A)
                left = rng.choice(['', ' ', '\t', 'a { ', 'color: red; ', '{'])
                look = rng.random() < 0.6
                right = rng.choice(['', ' x', ';', '\n'] if look else ['', ' x', ';', ')', ']', '}', '"'])
                opt = {'type': 'stylesheet'} if look else {'type': 'stylesheet', 'lookAhead': False}
                mon.roundtrip(left, '', A3, right, opt, 'd1', None, 'roundtrip:stylesheet')
    finally:
        pr.uninstall()
    for k, v in pr.reach().items():
        ctx.mon('reach:' + k, v)


def replay(case, ctx):
    mon = Mon(ctx)
    if case['check'] == 'consistency':
        mon.consistency(case['line'], case['pos'], case['options'], 'replay')
    else:
        o = dict(case['options'])
        o.pop('prefix', None)
        right = case['line'][case['pos']:]
        mon.roundtrip(case['left'], case['prefix'], case['A'], right, o, case['domain'], case['pattern'], 'replay')


# ---- known findings: heuristic mechanisms of the backward scan (same upstream), keyed by mechanism ----
def _f1(rec):
    """`...ident=run>` left of the caret is taken for the end of an HTML tag (is_html ->
    consume_attribute_with_unquoted_value).  Explains only D2/F1 cases whose wrong result is None or a
    proper suffix of A that starts right after such a '>'."""
    c = rec['case']
    if rec['kind'] != 'roundtrip-not-exact' or c.get('domain') != 'd2' or c.get('pattern') != 'F1':
        return False
    act = rec['detail'].get('actual')
    if act is None:
        return True
    A = c['A']
    got, loc = act[0], act[1]
    a0 = len(c['left']) + len(c['prefix'])
    if not A.endswith(got) or got == A or loc + len(got) != c['pos']:
        return False
    cut = loc - a0          # index in A where the result starts; the char before must be the offending '>'
    return cut > 0 and A[cut - 1] == '>' and '=' in c['line'][:loc]


def _f2(rec):
    """A bracket character inside a quoted attribute value is counted by the backward bracket matcher.
    Explains only D2/F2 cases whose result is None or a suffix of A starting inside / after the quoted value."""
    c = rec['case']
    if rec['kind'] != 'roundtrip-not-exact' or c.get('domain') != 'd2' or c.get('pattern') != 'F2':
        return False
    act = rec['detail'].get('actual')
    if act is None:
        return True
    A = c['A']
    got = act[0]
    q = A.find('"')
    return A.endswith(got) and got != A and len(A) - len(got) > q >= 0


def _f3(rec):
    """is_html() knows tag names made of letters, digits, `:` and `-` only: after `<Foo.Bar>` / `<x_y>` the backward scan does not see a
    tag and runs on into it.  Explains only D2/F3 cases whose result ends at the caret, ends with A and starts inside the left tag."""
    c = rec['case']
    if rec['kind'] != 'roundtrip-not-exact' or c.get('domain') != 'd2' or c.get('pattern') != 'F3':
        return False
    act = rec['detail'].get('actual')
    if act is None:
        return False
    got, loc = act[0], act[1]
    return got.endswith(c['A']) and got != c['A'] and 0 < loc < len(c['left']) and loc + len(got) == c['pos']


CLASSIFIERS = {'C11-unquoted-attribute-run-taken-for-tag-end': _f1, 'C11-bracket-inside-quoted-value': _f2,
               'C11-tag-name-with-dot-or-underscore-not-seen-as-tag': _f3}
