"""C18 - tokenizers are lossless: token spans tile the abbreviation.

Refuting event: a token list returned by emmet.abbreviation.tokenize /
emmet.css_abbreviation.tokenize whose spans are undefined, empty, overlapping, gapped or
do not end at len(input); or an escaping exception that is not ScannerException with
0 <= pos <= len(input)."""
from .. import core, forms, enum, gen_abbr, gen_cssabbr, stretch

ID = 'C18'
RULE = ('cases = (mode, string) with mode in markup / stylesheet-property / stylesheet-value; '
        'exhaustive over the abbreviation alphabets up to the stated length (partitioned by 2-symbol prefix), '
        'plus seeded random strings <= 60 symbols and every prefix of generated valid abbreviations; '
        'a case is non-trivial when it produced >= 2 tokens or a scanner error; distinct by (mode, string)')
ASSUMPTIONS = ['CPython 3.12 semantics', 'the tiling oracle (20 lines) is correct',
               'inputs outside the stated alphabets are only reached by the random unicode share']
MARKUP_ALPHA = list('a1$#*@-.>+^()[]{}"\'\\ =/:!')
CSS_ALPHA = list('a1$#-.+!,:()@%"\' t{}/')
MODES = ('markup', 'css', 'cssval')
FLOORS = {'quick': {'markup:enum': 100000, 'css:enum': 50000, 'cssval:enum': 50000, 'markup:random': 2000,
                    'css:random': 2000, 'markup:prefix': 2000, 'css:prefix': 1000},
          'thorough': {'markup:enum': 2000000, 'css:enum': 1000000, 'cssval:enum': 1000000, 'markup:random': 50000,
                       'css:random': 50000, 'markup:prefix': 50000, 'css:prefix': 20000}}
REQUIRED_MONITORS = ['oracle:tiling', 'oracle:error-position']
BOUNDS = {'quick': {'maxlen': 4, 'stride': 1}, 'thorough': {'maxlen': 5, 'stride': 1}}


def describe(tier):
    return {'exhaustive': True,
            'bounds': {'enumerated_max_symbols': BOUNDS[tier]['maxlen'], 'markup_alphabet': ''.join(MARKUP_ALPHA),
                       'stylesheet_alphabet': ''.join(CSS_ALPHA),
                       'note': 'exhaustive part complete up to the bound; random/prefix parts are samples'}}


def shards(tier, seed):
    n = 8 if tier == 'quick' else 16
    out = []
    for mode in MODES:
        for p in range(n):
            out.append({'kind': 'enum', 'mode': mode, 'part': p, 'nparts': n, **BOUNDS[tier]})
    nr = 8 if tier == 'quick' else 16
    for p in range(nr):
        out.append({'kind': 'random', 'part': p, 'first': p == 0, 'n': 400 if tier == 'quick' else 12000})
    return out


def _fns():
    from emmet.abbreviation import tokenize as mt
    from emmet.css_abbreviation import tokenize as ct
    return {'markup': lambda s: mt(s), 'css': lambda s: ct(s, False), 'cssval': lambda s: ct(s, True)}


INT_LIMIT = {'now': None}       # the interpreter's int <-> str digit limit as set by the harness for the current case (None: left at its default)


def with_int_limit(limit, fn):
    "runs fn() with sys.set_int_max_str_digits(limit) - what a host application may do at any time AFTER importing the library - and restores the setting"
    import sys
    old = sys.get_int_max_str_digits()
    sys.set_int_max_str_digits(limit)
    INT_LIMIT['now'] = limit
    try:
        return fn()
    finally:
        sys.set_int_max_str_digits(old)
        INT_LIMIT['now'] = None


EDITS = [0, 0]


def check(mode, s, cls, ctx, fns, again=False, force_edit=None):
    from emmet.scanner import ScannerException
    ctx.ev(cls)
    EDITS[1] += 1
    r = core.call(fns[mode], forms.Shown(s) if EDITS[1] % 7 == 0 else s)        # (every seventh input as a str subclass that shows something else)
    case = {'mode': mode, 's': s}
    if again is not False:
        case['after_caller_edit'] = again
    if INT_LIMIT['now'] is not None:
        case['int_max_str_digits'] = INT_LIMIT['now']
    if r[0] == 'exc':
        e = r[1]
        ctx.mon('oracle:error-position')
        if isinstance(e, ScannerException):
            ctx.seen((mode, s))
            ctx.state('outcome', 'ScannerException')
            pos = getattr(e, 'pos', None)
            if not isinstance(pos, int) or not (0 <= pos <= len(s)):
                ctx.violation('error-position', case, {'pos': repr(pos), 'len': len(s)})
            return
        ctx.violation('foreign-exception', case, {'exc': list(core.exc_site(e)), 'msg': str(e)[:200]})
        return
    toks = r[1]
    ctx.mon('oracle:tiling')
    if not isinstance(toks, list):
        ctx.violation('bad-return', case, {'type': type(toks).__name__})
        return
    pos = 0
    prev = '^'
    for t in toks:
        st, en = getattr(t, 'start', None), getattr(t, 'end', None)
        ty = type(t).__name__
        ctx.state('bigram:' + ('markup' if mode == 'markup' else 'css'), prev + '>' + ty)
        prev = ty
        if not isinstance(st, int) or not isinstance(en, int):
            ctx.violation('undefined-span', case, {'token': ty, 'start': repr(st), 'end': repr(en)})
            return
        if st != pos:
            ctx.violation('gap-or-overlap', case, {'token': ty, 'start': st, 'expected_start': pos})
            return
        if en <= st:
            ctx.violation('empty-token', case, {'token': ty, 'start': st, 'end': en})
            return
        pos = en
    if pos != len(s):
        ctx.violation('short-cover', case, {'covered': pos, 'len': len(s)})
        return
    if len(toks) >= 2:
        ctx.seen((mode, s))
    EDITS[0] += 1
    if again is False and toks and (EDITS[0] % 5 == 0 or force_edit is not None):
        # the caller does what it likes with the list it was given (drops a dangling operator before parsing, appends, moves a span) and then
        # asks again for the same string: the answer tiles the input as before
        ctx.mon('oracle:tiling-after-the-caller-edited-an-earlier-result')
        k = EDITS[0] // 5 % 4 if force_edit is None else force_edit
        if k == 0:
            toks.pop()
        elif k == 1:
            toks += [toks[0], toks[-1]]
        elif k == 2:
            try:
                toks[-1].end += 3
                toks[0].start += 1
            except AttributeError:
                pass
        else:
            del toks[:]
        check(mode, s, cls + ':asked-again', ctx, fns, again=k)
        if k == 3:
            check(mode, s, cls + ':asked-again', ctx, fns, again=k)
        return
    if len(ctx.samples) < 2 and len(toks) >= 3:
        ctx.sample({'mode': mode, 'input': s, 'spans': [[type(t).__name__, t.start, t.end] for t in toks]})


def run_shard(desc, ctx):
    fns = _fns()
    if desc['kind'] == 'enum':
        mode = desc['mode']
        alpha = MARKUP_ALPHA if mode == 'markup' else CSS_ALPHA
        cls = mode + ':enum'
        for s in enum.strings(alpha, desc['maxlen'], desc['part'], desc['nparts'], stride=desc.get('stride', 1)):
            check(mode, s, cls, ctx, fns)
        return
    rng = ctx.rng
    if desc.get('first'):
        for s in stretch.class_border_inputs(stretch.MARKUP_NUMBER_SLOTS):
            check('markup', s, 'markup:class-border', ctx, fns)
        for s in stretch.class_border_inputs(stretch.CSS_NUMBER_SLOTS):
            check('css', s, 'css:class-border', ctx, fns)
            check('cssval', s, 'css:class-border', ctx, fns)
        # every construct that can be left open, cut right after an escape character (the scanner must not step over the end of the input)
        for pre in ('', 'a', 'ul>li'):
            for opener in ('{', '[a="', "[a='", '{${1:', '[a=${1:', '{${', '[a={', '(a{', '[a="${1:', '{${ab', '{a{b', '[a=b', '${1:'):
                for body in ('', 'x', 'C:', '\\'):
                    s = pre + opener + body + '\\'
                    check('markup', s, 'markup:open-construct-ending-in-escape', ctx, fns)
                    check('css', 'p' + opener + body + '\\', 'css:open-construct-ending-in-escape', ctx, fns)
                    check('cssval', opener + body + '\\', 'css:open-construct-ending-in-escape', ctx, fns)
        # digit runs around the interpreter's int <-> str limit: at its default, lowered by the host at run time, and switched off
        def limit_runs(limit):
            eff = limit or 4300
            for k in (eff - 1, eff, eff + 1, 2 * eff):
                for digits in ('9' * k, '1' + '0' * (k - 1)):
                    for t in stretch.MARKUP_NUMBER_SLOTS[:7] + ['a*%s>b', '(a+b)*%s']:
                        check('markup', t.replace('%s', digits), 'markup:int-limit', ctx, fns)
                    for t in ['p${%s}', 'p${%s:x}', 'm%s', 'm1.%s', 'c#f.%s', 'm-%s']:
                        check('css', t.replace('%s', digits), 'css:int-limit', ctx, fns)
                        check('cssval', t.replace('%s', digits), 'css:int-limit', ctx, fns)
        limit_runs(None)
        for lim in (640, 1000, 0):
            with_int_limit(lim, lambda: limit_runs(lim))
    extra = ['é', 'Ж', '\t', '\n', '\xa0', '%', ',', '~', '`', '<', '&', ';', '?', '|', '_', 'Z', '9'] + stretch.CLASS_BORDER_CHARS
    for i in range(desc['n']):
        for mode in MODES:
            alpha = (MARKUP_ALPHA if mode == 'markup' else CSS_ALPHA)
            L = rng.randint(5, 60) if rng.random() < 0.9 else rng.randint(61, 400)
            s = ''.join(rng.choice(alpha) if rng.random() < 0.93 else rng.choice(extra) for _ in range(L))
            check(mode, s, ('markup' if mode == 'markup' else 'css') + ':random', ctx, fns)
        if i % 3 == 0:
            a = gen_abbr.random_abbreviation(rng)
            for j in range(len(a) + 1):
                check('markup', a[:j], 'markup:prefix', ctx, fns)
            for _ in range(3):
                check('markup', stretch.stretch_class(a, rng), 'markup:stretched', ctx, fns)
                x = stretch.stretch_class(gen_cssabbr.random_abbreviation(rng), rng)
                check('css', x, 'css:stretched', ctx, fns)
                check('cssval', x, 'css:stretched', ctx, fns)
            c = gen_cssabbr.random_abbreviation(rng)
            for j in range(len(c) + 1):
                check('css', c[:j], 'css:prefix', ctx, fns)
                check('cssval', c[:j], 'css:prefix', ctx, fns)


def replay(case, ctx):
    if case.get('int_max_str_digits') is not None:
        with_int_limit(case['int_max_str_digits'], lambda: check(case['mode'], case['s'], 'replay', ctx, _fns()))
        return
    check(case['mode'], case['s'], 'replay', ctx, _fns(), force_edit=case.get('after_caller_edit'))


# known findings (mechanism-keyed); enabled only while listed as open in known_findings.json
CLASSIFIERS = {}
