"""C03 - attributes are carried over, merged and quoted as written.

Refuting event: the attribute list of the output tag (read with the independent,
quote-aware scanner) differs from the list computed from the written mentions by the
merge / quoting / boolean / implied / name-mapping rules of the statement."""
import itertools

from .. import core, hostile, outparse, probes

ID = 'C03'
RULE = ('cases = (sequence of attribute mentions on one element, syntax, attribute options); mentions: #v .v [n=v] [n="v"] [n=\'v\'] [n] [n.] [!n] [!n=v] '
        '[n={v}] (+ ..v under jsx/vue); all sequences up to the bound over 3 names x 6 mention kinds (exhaustive), random sequences <= 10 mentions with '
        'values over the punctuation alphabet; crossed with html/xml/jsx/vue and attributeQuotes x attributeCase x compactBoolean x reverseAttributes x '
        'selfClosingStyle x markup.attributes. Non-trivial = at least two mentions; distinct by (abbreviation, syntax, options)')
ASSUMPTIONS = ['duplicates that mix boolean / implied / expression flags with plain values are not generated (the statement does not define their merge)',
               'compact boolean form: bare name; under xhtml/xml self-closing style `name=""` is accepted as well',
               'values exclude the configured output quote, $, backslash and line breaks; unquoted values are bracket-balanced and free of blanks, quotes and =',
               'the element is a custom element without snippet (snippet attributes are C14)']
BOOL = ['contenteditable', 'seamless', 'async', 'autofocus', 'autoplay', 'checked', 'controls', 'defer', 'disabled', 'formnovalidate', 'hidden',
        'ismap', 'loop', 'multiple', 'muted', 'novalidate', 'readonly', 'required', 'reversed', 'selected', 'typemustmatch']
FLOORS = {'quick': {'enum': 25000, 'random': 30000}, 'thorough': {'enum': 450000, 'random': 220000}}
REQUIRED_MONITORS = ['oracle:attribute-list']
BOUNDS = {'quick': {'maxlen': 4, 'random': 7000}, 'thorough': {'maxlen': 5, 'random': 28000}}
SYNTAXES = ['html', 'xml', 'jsx', 'vue']
ENUM_NAMES = ['k', 'class', 'disabled']
ENUM_KINDS = ['raw', 'dq', 'none', 'bool', 'impl', 'short']


def describe(tier):
    return {'exhaustive': True, 'bounds': {'enumerated_mention_sequences_up_to': BOUNDS[tier]['maxlen'], 'names': ENUM_NAMES, 'kinds': ENUM_KINDS,
                                           'note': 'mention sequences exhaustive up to the bound (option tuples rotate); random part is a sample'}}


def spell(mentions):
    "abbreviation text of one element from its mention list"
    s = 'x-el'
    group = []

    def flush():
        nonlocal s, group
        if group:
            s += '[' + ' '.join(group) + ']'
            group = []
    for m in mentions:
        k, n, v = m['k'], m['n'], m.get('v')
        if k == 'short':
            flush()
            s += ('#' if n == 'id' else '.') + v
        elif k == 'mshort':
            flush()
            s += ('##' if n == 'id' else '..') + v
        else:
            if k == 'raw':
                group.append('%s=%s' % (n, v))
            elif k == 'dq':
                group.append('%s="%s"' % (n, v))
            elif k == 'sq':
                group.append("%s='%s'" % (n, v))
            elif k == 'none':
                group.append(n)
            elif k == 'bool':
                group.append(n + '.')
            elif k == 'impl':
                group.append('!' + n)
            elif k == 'implv':
                group.append('!%s=%s' % (n, v))
            elif k == 'expr':
                group.append('%s={%s}' % (n, v))
            if m.get('close'):
                flush()
    flush()
    return s


def mixed(mentions):
    "True when the statement does not define the merge (mixed flags among duplicates)"
    seen = {}
    for m in mentions:
        n = 'class' if m['k'] in ('short', 'mshort') and m['n'] == 'class' else m['n']
        flag = m['k'] if m['k'] in ('bool', 'impl', 'implv', 'expr', 'mshort') else 'plain'
        if n in seen and (seen[n] != flag or flag != 'plain'):
            return True
        seen.setdefault(n, flag)
    return False


def expected(mentions, syntax, opts):
    order = []
    d = {}
    for m in mentions:
        k, n, v = m['k'], m['n'], m.get('v')
        t = {'raw': 'raw', 'short': 'raw', 'mshort': 'raw', 'dq': 'q', 'sq': 'q', 'expr': 'expr', 'implv': 'raw'}.get(k, 'raw')
        if n not in d:
            d[n] = {'v': v, 't': t, 'bool': k == 'bool', 'impl': k in ('impl', 'implv'), 'multiple': k == 'mshort'}
            order.append(n)
            continue
        p = d[n]
        if n == 'class':
            if p['v'] is not None and v is not None:
                p['v'] = p['v'] + ' ' + v if p['v'] else v
            elif p['v'] is None:
                p['v'] = v
        elif not opts.get('output.reverseAttributes'):
            p['v'] = v
            p['t'] = t
    q = "'" if opts.get('output.attributeQuotes') == 'single' else '"'
    # options are one flat layer-merged dict (C20): a `markup.attributes` given by the caller replaces the syntax default
    amap = dict({'jsx': {'class': 'className', 'class*': 'styleName', 'for': 'htmlFor'}, 'vue': {'class*': ':class'}}.get(syntax, {}))
    if opts.get('markup.attributes') is not None:
        amap = dict(opts['markup.attributes'])
    vprefix = {'jsx': {'class*': 'styles'}}.get(syntax, {})
    case = opts.get('output.attributeCase')
    style = opts.get('output.selfClosingStyle', 'html')
    out = []
    for n in order:
        p = d[n]
        v = p['v']
        if p['impl'] and not v and p['t'] == 'raw':
            continue
        name = (p['multiple'] and amap.get(n + '*')) or amap.get(n) or n
        if case == 'upper':
            name = name.upper()
        elif case == 'lower':
            name = name.lower()
        lq, rq = ('{', '}') if p['t'] == 'expr' else (q, q)
        if p['multiple'] and vprefix.get(n + '*') and v:
            v = '%s.%s' % (vprefix[n + '*'], v)
            lq, rq = '{', '}'
        # "listed in output.booleanAttributes": a list given by the caller replaces the default one; HTML attribute names match in any letter case
        blist = opts.get('output.booleanAttributes')
        isbool = p['bool'] or n.lower() in (BOOL if blist is None else [x.lower() for x in blist])
        if isbool and not v:
            if opts.get('output.compactBoolean'):
                out.append([name, None if style == 'html' else 'BARE-OR-EMPTY'])
                continue
            v = name
        out.append([name, lq + (v or '') + rq])
    return out


class Mon:
    def __init__(self, ctx):
        import emmet
        self.ctx = ctx
        self.expand = hostile.wrap(emmet.expand, ctx)

    def check(self, mentions, syntax, opts, cls):
        ctx = self.ctx
        if mixed(mentions):
            ctx.mon('workload:skipped-undefined-merge')
            return
        ctx.ev(cls)
        abbr = spell(mentions)
        exp = expected(mentions, syntax, opts)
        o = dict(opts)
        o['output.format'] = False
        case = {'abbr': abbr, 'syntax': syntax, 'options': opts, 'expected': exp}
        ctx.mon('oracle:attribute-list')
        r = core.call(self.expand, abbr, {'syntax': syntax, 'options': o})
        if r[0] == 'exc':
            ctx.violation('exception', case, {'exc': list(core.exc_site(r[1])), 'msg': str(r[1])[:120]})
            return
        out = r[1]
        q = "'" if opts.get('output.attributeQuotes') == 'single' else '"'
        try:
            st = outparse.tag_stream(out)
            if len(st) != 2 or st[0][0] != 'open' or st[0][1] != 'x-el' or st[1] != ('close', 'x-el'):
                raise outparse.OutParseError('not a single <x-el ...></x-el> element')
            act = [[a, v] for a, v in st[0][2]]
        except outparse.OutParseError as e:
            ctx.violation('unparseable-output', case, {'output': out[:300], 'parser': str(e)})
            return
        ok = len(act) == len(exp) and all(a[0] == e[0] and (a[1] == e[1] or (e[1] == 'BARE-OR-EMPTY' and a[1] in (None, q + q)))
                                          for a, e in zip(act, exp))
        if not ok:
            ctx.violation('attribute-mismatch', case, {'output': out[:300], 'actual': act})
            return
        if len(mentions) >= 2:
            ctx.seen((abbr, syntax, sorted(opts.items(), key=repr)))
        ctx.state('mention-kinds', ''.join(sorted(set(m['k'][0] + m['k'][-1] for m in mentions))))
        if len(ctx.samples) < 3 and len(mentions) >= 5:
            ctx.sample({'abbreviation': abbr, 'syntax': syntax, 'options': opts, 'output': out})


OPTION_TUPLES = [dict(zip(('output.attributeQuotes', 'output.attributeCase', 'output.compactBoolean', 'output.reverseAttributes', 'output.selfClosingStyle'), t))
                 for t in itertools.product(['double', 'single'], ['', 'upper', 'lower'], [False, True], [False, True], ['html', 'xhtml', 'xml'])]


def enum_mention(name, kind, i):
    v = 'v%d' % i
    if kind == 'short':
        if name == 'k':
            return {'k': 'short', 'n': 'id', 'v': v}
        if name == 'disabled':
            return {'k': 'dq', 'n': 'disabled', 'v': 'a b%d' % i, 'close': True}
        return {'k': 'short', 'n': 'class', 'v': v}
    m = {'k': kind, 'n': name, 'close': i % 2 == 0}
    if kind in ('raw', 'dq'):
        m['v'] = v if kind == 'raw' else 'q %d' % i
    return m


RAW_VALUES = ['x', 'foo-bar', 'a.b', '1', 'a/b', 'x:y', '#f', 'a_b', '(y)', '[z]', 'a>b', 'a+b^c', '!x', 'a,b;c', '@m', '%20', '-', 'ü', 'a*b', '*', '((a))']
Q_VALUES = ['x y', 'a>b', 'a]b', '[x]', '(y)', 'a}b', 'a=b', '+^*', 'é ü', 'a  b', '{z}', '<b>', ' lead', 'trail ', '.#[', 'a/>b', '*3', '(', ')', 'a.b#c']
EXPR_VALUES = ['x', 'a > b', 'f(1)', 'a.b', '{a:1}', 'x ? "y" : z', '[1, 2]']
NAMES = ['k', 'data-a', 'title', 'm:n', 'disabled', 'class', 'id', 'for', 'checked', 'aria-x', 'x.y', '_u', 'allowFullScreen', 'Open']


def rand_mentions(rng, syntax, q):
    ms = []
    names = NAMES
    if rng.random() < (0.15 if syntax in ('jsx', 'vue') else 0.08):
        # doubled shorthand (`..foo`, `##a`): the name is looked up under `name*` first, then under the plain name
        n = 'class' if rng.random() < 0.75 else 'id'
        ms.append({'k': 'mshort', 'n': n, 'v': rng.choice(['foo', 'bar1', 'x_y'])})
        names = [x for x in NAMES if x != n]
    count = rng.randint(1, 10) if rng.random() < 0.9 else rng.randint(11, 40)
    if count > 10:
        # wide elements: many DISTINCT names (thresholds of lookup structures), later ones repeated
        names = names + ['n%d' % k for k in range(rng.choice([4, 12, 20, 30]))]
    for i in range(count):
        r = rng.random()
        if r < 0.2 and 'class' in names:
            ms.append({'k': 'short', 'n': 'class', 'v': rng.choice(['c1', 'c2', 'c-3', 'c_4', 'C5'])})
        elif r < 0.3:
            ms.append({'k': 'short', 'n': 'id', 'v': rng.choice(['i1', 'i2', 'i-3'])})
        else:
            n = rng.choice(names)
            k = rng.choice(['raw', 'raw', 'dq', 'dq', 'sq', 'none', 'none', 'bool', 'impl', 'implv', 'expr'])
            m = {'k': k, 'n': n, 'close': rng.random() < 0.5}
            if k in ('raw', 'implv'):
                m['v'] = rng.choice(RAW_VALUES)
            elif k == 'dq':
                m['v'] = rng.choice([v for v in Q_VALUES if q not in v and '"' not in v])
            elif k == 'sq':
                m['v'] = rng.choice([v for v in Q_VALUES if q not in v and "'" not in v])
            elif k == 'expr':
                m['v'] = rng.choice([v for v in EXPR_VALUES if q not in v])
            ms.append(m)
    return ms


def shards(tier, seed):
    n = 8 if tier == 'quick' else 16
    b = BOUNDS[tier]
    return [{'part': p, 'nparts': n, 'maxlen': b['maxlen'], 'random': b['random'], 'seed': seed} for p in range(n)]


def run_shard(desc, ctx):
    mon = Mon(ctx)
    pr = probes.Probes().add('emmet.markup.attributes:merge_attributes').add('emmet.markup.attributes:merge_declarations') \
        .add('emmet.markup.format.html:push_attribute').add('emmet.abbreviation.convert:convert_attribute').install()
    try:
        idx = 0
        alphabet = [(n, k) for n in ENUM_NAMES for k in ENUM_KINDS]
        for L in range(1, desc['maxlen'] + 1):
            for seq in itertools.product(alphabet, repeat=L):
                idx += 1
                if idx % desc['nparts'] != desc['part']:
                    continue
                ms = [enum_mention(n, k, i) for i, (n, k) in enumerate(seq)]
                opts = OPTION_TUPLES[(idx // desc['nparts'] + desc['seed']) % len(OPTION_TUPLES)]
                mon.check(ms, SYNTAXES[(idx // 7) % 4], opts, 'enum')
        rng = ctx.rng
        for _ in range(desc['random']):
            syntax = rng.choice(SYNTAXES)
            opts = dict(rng.choice(OPTION_TUPLES))
            if rng.random() < 0.2:
                opts['markup.attributes'] = {'title': 'data-title', 'k': 'K2'}
            elif rng.random() < 0.2:
                # user tables with any mix of plain and starred keys
                opts['markup.attributes'] = {k: v for k, v in [('class', 'className'), ('class*', 'styleName'), ('id', 'key'), ('id*', 'keys'), ('for', 'htmlFor'),
                                                                ('title', 'tt'), ('data-a', 'dataA')] if rng.random() < 0.4}
            if rng.random() < 0.15:
                # the caller's own list of boolean attributes, spelled the way the caller's framework spells them
                opts['output.booleanAttributes'] = [x for x in ['allowFullScreen', 'k', 'Open', 'TITLE', 'data-a', 'checked', 'm:n'] if rng.random() < 0.5]
                ctx.ev('random:own-boolean-list')
            q = "'" if opts['output.attributeQuotes'] == 'single' else '"'
            mon.check(rand_mentions(rng, syntax, q), syntax, opts, 'random')
    finally:
        pr.uninstall()
    for k, v in pr.reach().items():
        ctx.mon('reach:' + k, v)


def replay(case, ctx):
    import emmet
    # the expected list is data of the case: re-run the real code and compare
    o = dict(case['options'])
    o['output.format'] = False
    ctx.ev('replay')
    r = core.call(emmet.expand, case['abbr'], {'syntax': case['syntax'], 'options': o})
    if r[0] == 'exc':
        ctx.violation('exception', case, {'exc': list(core.exc_site(r[1]))})
        return
    q = "'" if case['options'].get('output.attributeQuotes') == 'single' else '"'
    try:
        st = outparse.tag_stream(r[1])
        act = [[a, v] for a, v in st[0][2]]
    except Exception as e:      # noqa
        ctx.violation('unparseable-output', case, {'output': r[1][:300], 'parser': str(e)})
        return
    exp = case['expected']
    ok = len(act) == len(exp) and all(a[0] == e[0] and (a[1] == e[1] or (e[1] == 'BARE-OR-EMPTY' and a[1] in (None, q + q))) for a, e in zip(act, exp))
    if not ok:
        ctx.violation('attribute-mismatch', case, {'output': r[1][:300], 'actual': act})


CLASSIFIERS = {}
