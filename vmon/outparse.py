"""Independent parsers of *outputs* of emmet.expand (never emmet's own matchers)."""


class OutParseError(Exception):
    pass


WS = ' \t\r\n'


def tag_stream(s, keep_ws_text=False):
    """Quote-aware scanner of HTML-like output.  Returns a list of tokens:
       ('open', name, [(attr, rawvalue|None)...], closer)   closer in '', '/', ' /'
       ('close', name) | ('text', str) | ('comment', str)
    rawvalue keeps its delimiters ("..", '..', {..}) or is the bare unquoted text."""
    out = []
    i = 0
    n = len(s)
    while i < n:
        c = s[i]
        if c != '<':
            j = s.find('<', i)
            if j < 0:
                j = n
            t = s[i:j]
            if keep_ws_text or t.strip(WS):
                out.append(('text', t))
            i = j
            continue
        if s.startswith('<!--', i):
            j = s.find('-->', i + 4)
            if j < 0:
                raise OutParseError('unterminated comment at %d' % i)
            out.append(('comment', s[i:j + 3]))
            i = j + 3
            continue
        if s.startswith('</', i):
            j = s.find('>', i)
            if j < 0:
                raise OutParseError('unterminated close tag at %d' % i)
            out.append(('close', s[i + 2:j]))
            i = j + 1
            continue
        # open tag
        j = i + 1
        while j < n and s[j] not in WS and s[j] != '>' and not s.startswith('/>', j):
            j += 1
        name = s[i + 1:j]
        if not name:
            raise OutParseError('empty tag name at %d' % i)
        attrs = []
        closer = None
        while True:
            k = j
            while k < n and s[k] in WS:
                k += 1
            if k >= n:
                raise OutParseError('unterminated open tag at %d' % i)
            if s[k] == '>':
                closer = ''
                j = k + 1
                break
            if s.startswith('/>', k):
                closer = ' /' if k > j else '/'
                j = k + 2
                break
            if k == j:
                raise OutParseError('attribute not separated by whitespace at %d' % k)
            # attribute name
            a = k
            while k < n and s[k] not in WS and s[k] not in '=>' and not s.startswith('/>', k):
                k += 1
            aname = s[a:k]
            if not aname:
                raise OutParseError('empty attribute name at %d' % a)
            if k < n and s[k] == '=':
                k += 1
                if k >= n:
                    raise OutParseError('missing value at %d' % k)
                q = s[k]
                if q in '"\'':
                    e = s.find(q, k + 1)
                    if e < 0:
                        raise OutParseError('unterminated quoted value at %d' % k)
                    val = s[k:e + 1]
                    k = e + 1
                elif q == '{':
                    depth = 0
                    e = k
                    while e < n:
                        if s[e] == '{':
                            depth += 1
                        elif s[e] == '}':
                            depth -= 1
                            if depth == 0:
                                break
                        e += 1
                    if e >= n:
                        raise OutParseError('unterminated expression value at %d' % k)
                    val = s[k:e + 1]
                    k = e + 1
                else:
                    e = k
                    while e < n and s[e] not in WS and s[e] != '>':
                        e += 1
                    val = s[k:e]
                    k = e
                attrs.append((aname, val))
            else:
                attrs.append((aname, None))
            j = k
        out.append(('open', name, attrs, closer))
        i = j
    return out


def names_only(stream):
    "flat list of ('open'|'close'|'selfclose', name) ignoring text/comments"
    res = []
    for t in stream:
        if t[0] == 'open':
            res.append(('selfclose' if t[3] else 'open', t[1]))
        elif t[0] == 'close':
            res.append(('close', t[1]))
    return res


def norm_text(t):
    return ' '.join(t.split())


def content_stream(stream, drop_comments=True):
    """tags + attributes + whitespace-normalised text, adjacent text runs merged."""
    res = []
    for t in stream:
        if t[0] == 'comment':
            if not drop_comments:
                res.append(t)
            continue
        if t[0] == 'text':
            x = norm_text(t[1])
            if not x:
                continue
            if res and res[-1][0] == 'text':
                res[-1] = ('text', res[-1][1] + ' ' + x)
            else:
                res.append(('text', x))
        elif t[0] == 'open':
            res.append(('open', t[1], tuple(t[2]), bool(t[3])))
        else:
            res.append(t)
    return res


def tree_from_stream(stream, void=()):
    """Rebuilds (name, attrs, [children]) trees from a tag stream; `void` lists names whose
    open tag never has a close tag (html style)."""
    root = []
    stack = [root]
    names = []
    for t in stream:
        if t[0] == 'open':
            node = (t[1], tuple(t[2]), [])
            stack[-1].append(node)
            if not t[3] and t[1] not in void:
                stack.append(node[2])
                names.append(t[1])
        elif t[0] == 'close':
            if not names or names[-1] != t[1]:
                raise OutParseError('close tag %r does not match open %r' % (t[1], names[-1] if names else None))
            names.pop()
            stack.pop()
    if names:
        raise OutParseError('unclosed %r' % names)
    return root
