"""State census (the Python analogue of a leak sanitizer): a structural digest of every
module-level container, function default and closure cell of the emmet package, plus a
count of live instances of every class defined in emmet.*.  Taken right after import
(baseline) and at quiescent points after calls."""
import gc
import sys
import types
from collections import Counter


def _modules():
    return {n: m for n, m in sys.modules.items() if (n == 'emmet' or n.startswith('emmet.')) and m is not None}


def _digest(o, depth=0, seen=None):
    if seen is None:
        seen = set()
    if isinstance(o, (str, int, float, bool, type(None), bytes)):
        return repr(o)[:60]
    if id(o) in seen or depth > 4:
        return '<%s>' % type(o).__name__
    seen.add(id(o))
    if isinstance(o, dict):
        return ('dict', len(o), tuple(sorted((repr(k)[:40], _digest(v, depth + 1, seen)) for k, v in list(o.items())[:400])))
    if isinstance(o, (list, tuple, set, frozenset)):
        items = list(o)[:400]
        d = [_digest(v, depth + 1, seen) for v in items]
        if isinstance(o, (set, frozenset)):
            d = sorted(map(repr, d))
        return (type(o).__name__, len(o), tuple(d))
    if hasattr(o, '__slots__') or hasattr(o, '__dict__'):
        names = []
        for k in type(o).__mro__:
            names += list(getattr(k, '__slots__', ()))
        attrs = {n: getattr(o, n, None) for n in names if isinstance(n, str)}
        attrs.update(getattr(o, '__dict__', {}) or {})
        if isinstance(o, (types.FunctionType, type, types.ModuleType)):
            return '<%s %s>' % (type(o).__name__, getattr(o, '__name__', '?'))
        return (type(o).__name__, tuple(sorted((k, _digest(v, depth + 1, seen)) for k, v in attrs.items())))
    return '<%s>' % type(o).__name__


def module_state():
    "{path: digest} for module globals (containers / instances), function defaults and closure cells"
    out = {}
    for mname, mod in _modules().items():
        for gname, g in list(vars(mod).items()):
            if gname.startswith('__'):
                continue
            path = '%s.%s' % (mname, gname)
            if isinstance(g, types.FunctionType):
                if getattr(g, '__module__', None) != mname:
                    continue
                if g.__defaults__:
                    out[path + '.__defaults__'] = _digest(g.__defaults__)
                if g.__kwdefaults__:
                    out[path + '.__kwdefaults__'] = _digest(g.__kwdefaults__)
                if g.__closure__:
                    out[path + '.__closure__'] = _digest([c.cell_contents for c in g.__closure__ if _has(c)])
            elif isinstance(g, type):
                if getattr(g, '__module__', None) != mname:
                    continue
                for an, av in list(vars(g).items()):
                    if an.startswith('__') and an.endswith('__'):
                        continue        # interpreter bookkeeping on the class (e.g. copyreg's __slotnames__), not library state
                    if isinstance(av, (dict, list, set)):
                        out['%s.%s' % (path, an)] = _digest(av)
                    elif isinstance(av, types.FunctionType) and av.__defaults__:
                        out['%s.%s.__defaults__' % (path, an)] = _digest(av.__defaults__)
            elif isinstance(g, types.ModuleType):
                continue
            elif isinstance(g, (dict, list, set, tuple)) or type(g).__module__.startswith('emmet'):
                out[path] = _digest(g)
    return out


def _has(cell):
    try:
        cell.cell_contents
        return True
    except ValueError:
        return False


def live_instances():
    gc.collect()
    c = Counter()
    for o in gc.get_objects():
        t = type(o)
        m = getattr(t, '__module__', '') or ''
        if m == 'emmet' or m.startswith('emmet.'):
            c['%s.%s' % (m, t.__name__)] += 1
    return c


def snapshot():
    return {'state': module_state(), 'live': dict(live_instances())}


def diff(base, now):
    "returns (changed state paths, {class: delta>0})"
    changed = sorted(p for p in set(base['state']) | set(now['state']) if base['state'].get(p) != now['state'].get(p))
    grown = {k: v - base['live'].get(k, 0) for k, v in now['live'].items() if v > base['live'].get(k, 0)}
    return changed, grown
