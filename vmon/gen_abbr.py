"""Workload generator for markup abbreviations: builds a *written tree* first (the ground
truth the reference models work on) and then spells it as an abbreviation, using groups
and climb operators to delimit siblings."""

BLOCK = ['div', 'p', 'section', 'ul', 'ol', 'table', 'tr', 'tbody', 'h1', 'article', 'x-foo', 'ns:tag', 'li', 'td', 'main']
INLINE = ['span', 'em', 'b', 'i', 'strong', 'code', 'small', 'q']
IMPLICIT_PARENTS = ['ul', 'ol', 'table', 'tbody', 'thead', 'tfoot', 'tr', 'select', 'optgroup', 'p', 'span', 'em', 'div', 'section']


class Node:
    __slots__ = ('kind', 'name', 'mentions', 'text', 'rep', 'selfclose', 'children', 'tag')

    def __init__(self, kind='e'):
        self.kind = kind
        self.name = None
        self.mentions = []      # list of (spelling, ...) see spell_mention
        self.text = None        # already-encoded text body (between braces)
        self.rep = None         # None | int | '*' (implicit)
        self.selfclose = False
        self.children = []
        self.tag = None


DEFAULTS = dict(max_depth=3, max_children=3, p_group=0.2, p_children=0.5, p_rep=0.25, max_rep=3,
                p_nameless=0.0, p_class=0.3, p_id=0.15, p_attr=0.2, p_text=0.0, p_selfclose=0.0,
                names=BLOCK + INLINE, texts=['t', 'hello world'], attrs=['[title=x]', '[data-a="b c"]', '[k]'],
                classes=['c1', 'c2', 'c-3'], ids=['i1', 'i2'], group_rep=True)


def gen_tree(rng, depth=0, **kw):
    o = dict(DEFAULTS)
    o.update(kw)
    return _gen(rng, depth, o)


def _gen(rng, depth, o):
    nodes = []
    for _ in range(rng.randint(1, o['max_children'])):
        if depth < o['max_depth'] and rng.random() < o['p_group']:
            n = Node('g')
            n.children = _gen(rng, depth + 1, o)
            if o['group_rep'] and rng.random() < o['p_rep']:
                n.rep = rng.randint(1, o['max_rep'])
        else:
            n = Node('e')
            if rng.random() >= o['p_nameless']:
                n.name = rng.choice(o['names'])
            if rng.random() < o['p_id']:
                n.mentions.append('#' + rng.choice(o['ids']))
            while rng.random() < o['p_class'] or (n.name is None and not n.mentions):
                n.mentions.append('.' + rng.choice(o['classes']))
            if rng.random() < o['p_attr']:
                n.mentions.append(rng.choice(o['attrs']))
            if rng.random() < o['p_text']:
                n.text = rng.choice(o['texts'])
            if rng.random() < o['p_rep']:
                n.rep = rng.randint(1, o['max_rep'])
            if depth < o['max_depth'] and rng.random() < o['p_children']:
                n.children = _gen(rng, depth + 1, o)
            elif n.name and n.text is None and rng.random() < o['p_selfclose']:
                n.selfclose = True
        nodes.append(n)
    return nodes


def depth_of(nodes):
    return 1 + max((depth_of(n.children) for n in nodes if n.children), default=0) if nodes else 0


def thin_reps(nodes, rng, keep=0.1):
    "deep trees: keep only a few repeaters, so that the output stays small"
    for n in nodes:
        if n.rep is not None and rng.random() > keep:
            n.rep = None
        thin_reps(n.children, rng, keep)


def head(n):
    s = (n.name or '') + ''.join(n.mentions)
    if n.text is not None:
        s += '{' + n.text + '}'
    if n.selfclose:
        s += '/'
    if n.rep is not None:
        s += '*' if n.rep == '*' else '*%d' % n.rep
    return s


def write(nodes, rng=None, p_climb=0.4):
    """Returns (abbreviation, depth_after): depth_after = how many levels below the level
    of `nodes` the spelling ends (0 after a leaf or a group)."""
    parts = []
    depth_after = 0
    last = len(nodes) - 1
    for i, n in enumerate(nodes):
        if n.kind == 'g':
            inner, _ = write(n.children, rng, p_climb)
            s = '(' + inner + ')'
            if n.rep is not None:
                s += '*%d' % n.rep
            d = 0
        else:
            s = head(n)
            d = 0
            if n.children:
                inner, di = write(n.children, rng, p_climb)
                s += '>' + inner
                d = 1 + di
        if i != last:
            if d == 0:
                s += '+'
            elif rng is not None and rng.random() < p_climb:
                s += '^' * d
            else:
                s = '(' + s + ')+'
            d = 0
        parts.append(s)
        depth_after = d
    return ''.join(parts), depth_after


def random_abbreviation(rng, rich=True):
    "A valid abbreviation with most features of the language (for prefix/mutation workloads)."
    kw = dict(p_nameless=0.15, p_text=0.25, p_selfclose=0.1,
              texts=['t', 'hello world', 'a ${1:x} b', 'Item $', '\\{x\\}', '{y}', 'q $$@3', '$#', '${1}', 'x ${2}', '${0:z}', 'l1\nl2', '${1}${2}'],
              attrs=['[title=x]', '[data-a="b c"]', '[k]', "[a='b']", '[a.]', '[!b]', '[x=${1}]', '[n=$@-]', '[e={v}]', '[a b=c d="e"]'],
              classes=['c1', 'c2', 'c-3', 'item$', 'k$$@2', '-e', '_m'], names=BLOCK + INLINE + ['a', 'img', 'input', 'label', 'lorem3', 'bq', '!'])
    tree = gen_tree(rng, **kw)
    return write(tree, rng)[0]
